import MakoModel.Basic.Unicode
import MakoModel.Generated.Encoding
/-!
# L8 (encodings): what mako does with the encoding of a template (property C18)

Transcribed from /repo (read the code beside each definition):

* `mako/lexer.py`   – `Lexer._coding_re`, `Lexer.decode_raw_stream`, the skip of the coding comment in `Lexer.parse`;
* `mako/template.py`– `_compile_module_file` (`source.encode(lexer.encoding or "ascii")`), `ModuleInfo.source`;
* `mako/codegen.py` – the magic comment line written by `write_toplevel`;
* `mako/util.py`    – `_PYTHON_MAGIC_COMMENT_re`, `parse_encoding`, `read_python_file`, `FastEncodingBuffer.getvalue`;
* `mako/runtime.py` – `_render` (which buffer).

Bytes are `List Nat` (values < 256 in every use), text is `List Char`.  Codecs are *abstract*
(`Codec`, a pair of partial functions); the laws the theorems need are stated as predicates
(`AsciiPrefix`, `Charwise`, `HighBytes`, `RoundTripOn`).  UTF-8 (strict, and with `errors="ignore"` as
`decode_raw_stream` uses it to look for the comment), latin-1 and ascii are given concretely.

Constants that live in /repo (`"utf-8"` defaults, the magic comment format, the BOM, `"ascii"`, `"utf_8"`)
come from `Generated/Encoding.lean`.
-/
namespace MakoModel.Encoding
open MakoModel.Basic

abbrev Bytes := List Nat
abbrev Text := List Char
abbrev Name := List Char

/-! ## Codecs -/

/-- a codec: `dec b = none` models `UnicodeDecodeError`, `enc t = none` models `UnicodeEncodeError` (errors="strict") -/
structure Codec where
  dec : Bytes → Option Text
  enc : Text → Option Bytes

def isAsciiChar (c : Char) : Bool := c.toNat < 128
def isAsciiText (t : Text) : Bool := t.all isAsciiChar
/-- the bytes of an ASCII text: each character is its own byte -/
def asciiBytes (t : Text) : Bytes := t.map Char.toNat

/-- character-by-character encoding with a per-character table -/
def encAll (f : Char → Option Bytes) : Text → Option Bytes
  | [] => some []
  | c :: t =>
    match f c, encAll f t with
    | some a, some b => some (a ++ b)
    | _, _ => none

/-- an ASCII prefix is encoded position-wise as itself, whatever follows (this is all that the handling of the
    coding comment and of the module's magic comment needs; it holds for shift_jis too) -/
def AsciiPrefix (c : Codec) : Prop :=
  c.enc [] = some [] ∧
  ∀ h r, isAsciiText h = true → c.enc (h ++ r) = (c.enc r).map (asciiBytes h ++ ·)

/-- stateless: the encoding of a text is the concatenation of the encodings of its characters -/
def Charwise (c : Codec) (f : Char → Option Bytes) : Prop := ∀ t, c.enc t = encAll f t

/-- ASCII-compatible in the strict sense: stateless, ASCII characters are their own single byte, and every other
    character is encoded with non-ASCII bytes only -/
def AsciiCompatible (c : Codec) : Prop :=
  ∃ f, Charwise c f ∧ (∀ ch, isAsciiChar ch = true → f ch = some [ch.toNat]) ∧
    (∀ ch bs, isAsciiChar ch = false → f ch = some bs → bs ≠ [] ∧ ∀ x ∈ bs, 128 ≤ x)

/-- `t` is in the repertoire of `c` and survives the round trip -/
def RoundTripOn (c : Codec) (t : Text) (b : Bytes) : Prop := c.enc t = some b ∧ c.dec b = some t

/-- the round-trip law: whatever can be encoded decodes to itself -/
def RoundTrip (c : Codec) : Prop := ∀ t b, c.enc t = some b → c.dec b = some t

/-! ### UTF-8, concretely (CPython's decoder; the `ignore` error handler drops the maximal invalid subpart) -/

/-- a multi-byte sequence under way: continuation bytes still needed, the code point so far, and the admissible
    range of the *next* continuation byte (`E0`, `ED`, `F0`, `F4` narrow it for their second byte) -/
structure Pending where
  need : Nat
  acc : Nat
  lo : Nat
  hi : Nat
  deriving DecidableEq, Repr

inductive First
  | ascii
  | lead (p : Pending)
  | bad

/-- what a byte means at the start of a sequence -/
def classify (b : Nat) : First :=
  if b < 0x80 then .ascii
  else if b < 0xC2 then .bad
  else if b < 0xE0 then .lead ⟨1, b - 0xC0, 0x80, 0xBF⟩
  else if b = 0xE0 then .lead ⟨2, 0, 0xA0, 0xBF⟩
  else if b = 0xED then .lead ⟨2, 13, 0x80, 0x9F⟩
  else if b < 0xF0 then .lead ⟨2, b - 0xE0, 0x80, 0xBF⟩
  else if b = 0xF0 then .lead ⟨3, 0, 0x90, 0xBF⟩
  else if b < 0xF4 then .lead ⟨3, b - 0xF0, 0x80, 0xBF⟩
  else if b = 0xF4 then .lead ⟨3, 4, 0x80, 0x8F⟩
  else .bad

/-- `bytes.decode("utf-8", "ignore")`: an invalid start byte is dropped; a sequence that is broken off is dropped
    up to (not including) the byte that broke it, which is looked at afresh; a sequence cut short by the end of the
    input is dropped -/
def utf8IgnoreGo : Option Pending → Bytes → Text
  | _, [] => []
  | none, b :: r =>
    match classify b with
    | .ascii => Char.ofNat b :: utf8IgnoreGo none r
    | .lead p => utf8IgnoreGo (some p) r
    | .bad => utf8IgnoreGo none r
  | some p, b :: r =>
    if p.lo ≤ b ∧ b ≤ p.hi then
      if p.need ≤ 1 then Char.ofNat (p.acc * 64 + (b - 0x80)) :: utf8IgnoreGo none r
      else utf8IgnoreGo (some ⟨p.need - 1, p.acc * 64 + (b - 0x80), 0x80, 0xBF⟩) r
    else
      match classify b with
      | .ascii => Char.ofNat b :: utf8IgnoreGo none r
      | .lead q => utf8IgnoreGo (some q) r
      | .bad => utf8IgnoreGo none r

def utf8Ignore (b : Bytes) : Text := utf8IgnoreGo none b

/-- `bytes.decode("utf-8")` (strict): `none` = `UnicodeDecodeError` -/
def utf8StrictGo : Option Pending → Bytes → Option Text
  | none, [] => some []
  | some _, [] => none
  | none, b :: r =>
    match classify b with
    | .ascii => (utf8StrictGo none r).map (Char.ofNat b :: ·)
    | .lead p => utf8StrictGo (some p) r
    | .bad => none
  | some p, b :: r =>
    if p.lo ≤ b ∧ b ≤ p.hi then
      if p.need ≤ 1 then (utf8StrictGo none r).map (Char.ofNat (p.acc * 64 + (b - 0x80)) :: ·)
      else utf8StrictGo (some ⟨p.need - 1, p.acc * 64 + (b - 0x80), 0x80, 0xBF⟩) r
    else none

def utf8Strict (b : Bytes) : Option Text := utf8StrictGo none b

/-- `ch.encode("utf-8")` -/
def utf8EncChar (c : Char) : Bytes :=
  let n := c.toNat
  if n < 0x80 then [n]
  else if n < 0x800 then [0xC0 + n / 64, 0x80 + n % 64]
  else if n < 0x10000 then [0xE0 + n / 4096, 0x80 + n / 64 % 64, 0x80 + n % 64]
  else [0xF0 + n / 262144, 0x80 + n / 4096 % 64, 0x80 + n / 64 % 64, 0x80 + n % 64]

def utf8Codec : Codec := ⟨utf8Strict, encAll fun c => some (utf8EncChar c)⟩

/-- one byte per character below `limit` (latin-1: 256, ascii: 128) -/
def byteCodec (limit : Nat) : Codec :=
  ⟨fun b => if b.all (· < limit) then some (b.map Char.ofNat) else none,
   encAll fun c => if c.toNat < limit then some [c.toNat] else none⟩

def latin1Codec : Codec := byteCodec 256
def asciiCodec : Codec := byteCodec 128

/-! ## `Lexer._coding_re` = `#.*coding[:=]\s*([-\w.]+).*\r?\n`, matched at position 0

Deterministic transcription.  `.` is every character but `\n`; `\s`, `\w` are the Unicode classes (str pattern).
`#` must be the first character.  The greedy `.*` makes the engine try the start positions of `coding` on the
first line from the last to the first, so the *last* position at which the rest matches wins.  After `coding[:=]`:
`\s*` takes the maximal whitespace run (it may cross line ends; a shorter run would leave a whitespace character
where `[-\w.]` is required), `([-\w.]+)` takes the maximal run of name characters (giving back characters only
lengthens the following `.*`, which cannot rescue a failure), `.*\r?\n` needs a newline somewhere after the name
and the match ends just after the first one (`\r` is matched by `.`).
-/

/-- `[-\w.]` -/
def isNameChar (c : Char) : Bool := c == '-' || c == '.' || isWord c

/-- `.*\r?\n`: the text after the first newline; `none` when there is none -/
def dropLine : Text → Option Text
  | [] => none
  | c :: cs => if c = '\n' then some cs else dropLine cs

/-- the literal `coding` followed by `[:=]`; returns what follows -/
def startsCoding : Text → Option Text
  | a :: b :: c :: d :: e :: f :: x :: r =>
    if a = 'c' ∧ b = 'o' ∧ c = 'd' ∧ d = 'i' ∧ e = 'n' ∧ f = 'g' ∧ (x = ':' ∨ x = '=') then some r else none
  | _ => none

/-- `\s*([-\w.]+).*\r?\n` – the group and the text after the match -/
def codingTail (t : Text) : Option (Name × Text) :=
  let a := t.dropWhile isSpace
  let name := a.takeWhile isNameChar
  if name.isEmpty then none
  else (dropLine (a.dropWhile isNameChar)).map fun rest => (name, rest)

/-- `.*coding[:=]…` from a position on the first line: later start positions are preferred -/
def codingScan : Text → Option (Name × Text)
  | [] => none
  | c :: cs =>
    if c = '\n' then none
    else
      match codingScan cs with
      | some r => some r
      | none => (startsCoding (c :: cs)).bind codingTail

/-- `_coding_re.match(text)`: `(group(1), text[m.end():])` -/
def codingMatch : Text → Option (Name × Text)
  | '#' :: rest => codingScan rest
  | _ => none

/-- the encoding named by the comment -/
def codingName (t : Text) : Option Name := (codingMatch t).map (·.1)

/-- `m.end()` (0 when there is no match): where `Lexer.parse` starts after `self.match_reg(self._coding_re)` -/
def codingSkip (t : Text) : Nat :=
  match codingMatch t with
  | some (_, rest) => t.length - rest.length
  | none => 0

/-! ## `Lexer.decode_raw_stream` -/

/-- Python's `x or d` for a string-or-`None`: `None` and `""` are false -/
def orDefault (x : Option Name) (d : Name) : Name :=
  match x with
  | some (c :: cs) => c :: cs
  | _ => d

inductive Input
  | str (t : Text)
  | bytes (b : Bytes)
  deriving DecidableEq, Repr

deriving instance DecidableEq for Except

/-- how `decode_raw_stream` / `_compile_module_file` / `render` can fail -/
inductive Err
  /-- `CompileException("Found utf-8 BOM in file, with conflicting magic encoding comment of …")` -/
  | bomConflict (comment : Name)
  /-- `CompileException("Unicode decode operation of encoding … failed")` -/
  | undecodable (encoding : Name)
  /-- `LookupError: unknown encoding` – not caught by mako -/
  | unknownCodec (encoding : Name)
  /-- `UnicodeEncodeError` – not caught by mako -/
  | unencodable (encoding : Name)
  /-- `UnicodeDecodeError` outside `decode_raw_stream` (`ModuleInfo.source`, `read_python_file`) – not caught -/
  | decodeError (encoding : Name)
  /-- `SyntaxError` of `parse_encoding` (BOM and magic comment in a Python file) -/
  | syntaxError
  /-- a preprocessor (a function on `str`) was handed the undecoded bytes – only in the variant of `Lexer.parse` that
      runs the preprocessors before `decode_raw_stream` (`decodeBeforePreprocessors = false`) -/
  | preprocessorOnBytes
  deriving DecidableEq, Repr

/-- the exception class a caller sees -/
def Err.isCompileException : Err → Bool
  | .bomConflict _ => true
  | .undecodable _ => true
  | _ => false

/-- the codec registry.  `codecOf` = `codecs.lookup`: which codec a name denotes, `none` = `LookupError`;
    `isUtf8 n` = `Lexer._is_utf8(n)` = `codecs.lookup(n).name == "utf-8"`, `False` on `LookupError` (the registry's
    normalisation of names – case, `-`/`_`, aliases – is a parameter; its tested instance is the regenerated
    `Generated.Encoding.utf8Aliases`) -/
structure Env where
  codecOf : Name → Option Codec
  isUtf8 : Name → Bool

/-- names the registry calls utf-8 denote the codec the BOM branch decodes with -/
def Env.Coherent (env : Env) : Prop :=
  ∀ n, env.isUtf8 n = true → env.codecOf n = env.codecOf Generated.Encoding.bomEncoding

/-- does the comment `n` agree with a BOM?  `not self._is_utf8(m.group(1))` since the repair of F-C18-1
    (`bomCompareByCodec`), `m.group(1) != "utf-8"` before -/
def bomAgrees (env : Env) (n : Name) : Bool :=
  if Generated.Encoding.bomCompareByCodec then env.isUtf8 n else n == Generated.Encoding.bomCompare

/-- `text[len(codecs.BOM_UTF8):]` when `text.startswith(codecs.BOM_UTF8)` -/
def stripBom (b : Bytes) : Option Bytes :=
  if Generated.Encoding.bom.isPrefixOf b then some (b.drop Generated.Encoding.bom.length) else none

/-- `self._coding_re.match(text.decode("utf-8", "ignore"))` → `m.group(1)` -/
def sniff (b : Bytes) : Option Name := codingName (utf8Ignore b)

/-- the bytes branch up to (not including) `text.decode(parsed_encoding)`: the chosen encoding and the bytes that
    will be decoded -/
def chooseBytes (env : Env) (b : Bytes) (known : Option Name) : Except Err (Name × Bytes) :=
  match stripBom b with
  | some r =>
    match sniff r with
    | some n => if bomAgrees env n then .ok (Generated.Encoding.bomEncoding, r)
                else .error (.bomConflict n)
    | none => .ok (Generated.Encoding.bomEncoding, r)
  | none =>
    match sniff b with
    | some n => .ok (n, b)
    | none => .ok (orDefault known Generated.Encoding.defaultBytes, b)

/-- the str branch: only the comment is looked at -/
def chooseStr (t : Text) (known : Option Name) : Name :=
  match codingName t with
  | some n => n
  | none => orDefault known Generated.Encoding.defaultStr

/-- `Lexer.decode_raw_stream(text, decode_raw, known_encoding, filename)` → `(encoding, text)` -/
def decodeRawStream (env : Env) (inp : Input) (decodeRaw : Bool) (known : Option Name) : Except Err (Name × Input) :=
  match inp with
  | .str t => .ok (chooseStr t known, .str t)
  | .bytes b =>
    match chooseBytes env b known with
    | .error e => .error e
    | .ok (n, r) =>
      if decodeRaw then
        match env.codecOf n with
        | none => .error (.unknownCodec n)
        | some c =>
          match c.dec r with
          | none => .error (.undecodable n)
          | some t => .ok (n, .str t)
      else .ok (n, .bytes r)

/-- what the lexer loop of `Lexer.parse` starts from: `self.encoding`, `self.text`, `self.match_position`
    (no preprocessors) -/
structure LexIn where
  encoding : Name
  text : Text
  start : Nat
  deriving DecidableEq, Repr

def lexStart (env : Env) (inp : Input) (known : Option Name) : Except Err LexIn :=
  match decodeRawStream env inp true known with
  | .error e => .error e
  | .ok (n, .str t) => .ok ⟨n, t, codingSkip t⟩
  | .ok (n, .bytes _) => .error (.undecodable n)     -- unreachable: `decode_raw=True` always returns str

/-- `for preproc in self.preprocessor: self.text = preproc(self.text)` -/
def applyAll (pre : List (Text → Text)) (t : Text) : Text := pre.foldl (fun t f => f t) t

/-- `Lexer.parse` up to its loop, with preprocessors: `decode_raw_stream` first, then the preprocessors on the decoded
    `str`, then the skip of the coding comment on what they returned (statement order regenerated from `Lexer.parse`:
    `decodeBeforePreprocessors`, `skipAfterPreprocessors`) -/
def lexStartP (env : Env) (inp : Input) (known : Option Name) (pre : List (Text → Text)) : Except Err LexIn :=
  if Generated.Encoding.decodeBeforePreprocessors then
    match decodeRawStream env inp true known with
    | .error e => .error e
    | .ok (n, .str t) =>
      .ok ⟨n, applyAll pre t, if Generated.Encoding.skipAfterPreprocessors then codingSkip (applyAll pre t) else codingSkip t⟩
    | .ok (n, .bytes _) => .error (.undecodable n)
  else
    match inp, pre with
    | .bytes _, _ :: _ => .error .preprocessorOnBytes
    | .bytes b, [] => lexStart env (.bytes b) known
    | .str t, _ => lexStart env (.str (applyAll pre t)) known

/-! ## The generated module: magic comment, `repr`, `_compile_module_file` -/

/-- `"# -*- coding:%s -*-" % source_encoding` -/
def magicLine (n : Name) : Text := Generated.Encoding.magicPrefix ++ n ++ Generated.Encoding.magicSuffix

def hexDigit (n : Nat) : Char := if n < 10 then Char.ofNat (48 + n) else Char.ofNat (87 + n)

/-- `width` lower-case hex digits of `n`, most significant first -/
def hexN : Nat → Nat → Text
  | 0, _ => []
  | w + 1, n => hexN w (n / 16) ++ [hexDigit (n % 16)]

/-- one character inside `repr(str)`; `np c` = "`c` is not printable" (`not c.isprintable()`, a property of the
    interpreter's Unicode database; a parameter) -/
def reprChar (np : Char → Bool) (quote : Char) (c : Char) : Text :=
  if c = quote ∨ c = '\\' then ['\\', c]
  else if c = '\t' then ['\\', 't']
  else if c = '\n' then ['\\', 'n']
  else if c = '\r' then ['\\', 'r']
  else if c.toNat < 32 ∨ c.toNat = 127 then '\\' :: 'x' :: hexN 2 c.toNat
  else if c.toNat < 127 then [c]
  else if np c then
    if c.toNat < 256 then '\\' :: 'x' :: hexN 2 c.toNat
    else if c.toNat < 65536 then '\\' :: 'u' :: hexN 4 c.toNat
    else '\\' :: 'U' :: hexN 8 c.toNat
  else [c]

/-- Python's `repr` of a `str` -/
def pyRepr (np : Char → Bool) (s : Text) : Text :=
  let quote := if s.contains '\'' ∧ ¬ s.contains '"' then '"' else '\''
  quote :: (s.flatMap (reprChar np quote)) ++ [quote]

/-- the generated module is pieces of three kinds -/
inductive Piece
  /-- text the generator writes itself (keywords, `__M_writer(`, the JSON metadata …): ASCII -/
  | scaffold (s : Text)
  /-- `repr(x)` of a string taken from the template / its file name / its uri -/
  | reprOf (s : Text)
  /-- template source copied as it is (expressions, Python blocks, def signatures) -/
  | code (s : Text)
  /-- the template's file name / uri: `"_template_filename = %a"` since the repair of F-C18-4 (`namesWrittenAscii`),
      `%r` before -/
  | nameOf (s : Text)

/-- Python's `ascii(s)`: `repr` with every non-ASCII character escaped -/
def pyAscii (s : Text) : Text := pyRepr (fun _ => true) s

def Piece.render (np : Char → Bool) : Piece → Text
  | .scaffold s => s
  | .reprOf s => pyRepr np s
  | .code s => s
  | .nameOf s => if Generated.Encoding.namesWrittenAscii then pyAscii s else pyRepr np s

/-- the characters a piece takes from outside the generator -/
def Piece.payload : Piece → Text
  | .scaffold _ => []
  | .reprOf s => s
  | .code s => s
  | .nameOf s => if Generated.Encoding.namesWrittenAscii then [] else s

def Piece.wellFormed : Piece → Bool
  | .scaffold s => isAsciiText s
  | _ => true

/-- `codegen.compile(…, source_encoding, generate_magic_comment)`: the module text -/
def joinNames (sep : Text) : List Name → Text
  | [] => []
  | [a] => a
  | a :: b :: r => a ++ sep ++ joinNames sep (b :: r)

/-- `"from __future__ import %s" % ", ".join(future_imports)` – written only `if self.compiler.future_imports:` -/
def futureLine (future : List Name) : Text :=
  match future with
  | [] => []
  | _ => Generated.Encoding.futurePrefix ++ joinNames Generated.Encoding.futureSep future ++ ['\n']

def moduleText (np : Char → Bool) (sourceEncoding : Option Name) (magic : Bool) (future : List Name) (body : List Piece) :
    Text :=
  let m : Text :=
    match magic, sourceEncoding with
    | true, some (c :: cs) => magicLine (c :: cs) ++ ['\n']
    | _, _ => []
  -- the order in which `write_toplevel` writes the two lines (regenerated: `magicCommentFirst`)
  (if Generated.Encoding.magicCommentFirst then m ++ futureLine future else futureLine future ++ m)
    ++ body.flatMap (Piece.render np)

/-- `_compile_module_file`: `source.encode(lexer.encoding or "ascii")` – the bytes handed to the module writer -/
def compileModuleFile (env : Env) (np : Char → Bool) (lexerEncoding : Option Name) (future : List Name)
    (body : List Piece) : Except Err Bytes :=
  let n := orDefault lexerEncoding Generated.Encoding.moduleFallback
  match env.codecOf n with
  | none => .error (.unknownCodec n)
  | some c =>
    match c.enc (moduleText np lexerEncoding Generated.Encoding.magicInModuleFile future body) with
    | none => .error (.unencodable n)
    | some b => .ok b

/-! ## `util.parse_encoding`, `util.read_python_file` -/

/-- `fp.readline()` on a binary file: up to and including the first `\n` -/
def readline : Bytes → Bytes × Bytes
  | [] => ([], [])
  | b :: r => if b = 10 then ([b], r) else let (l, rest) := readline r; (b :: l, rest)

/-- `line.decode("ascii", "ignore")` -/
def asciiIgnore (b : Bytes) : Text := (b.filter (· < 128)).map Char.ofNat

/-- `[ \t]*([-\w.]+)` -/
def pyMagicTail (t : Text) : Option Name :=
  let a := t.dropWhile isBlank
  let name := a.takeWhile isNameChar
  if name.isEmpty then none else some name

/-- `.*coding[=:]…` on one line, later start positions preferred -/
def pyMagicScan : Text → Option Name
  | [] => none
  | c :: cs =>
    if c = '\n' then none
    else
      match pyMagicScan cs with
      | some r => some r
      | none => (startsCoding (c :: cs)).bind pyMagicTail

/-- `_PYTHON_MAGIC_COMMENT_re.match(line)` = `[ \t\f]*#.*coding[=:][ \t]*([-\w.]+)` (re.VERBOSE) → group(1) -/
def pyMagicMatch (line : Text) : Option Name :=
  match line.dropWhile (fun c => c == ' ' || c == '\t' || c == '\x0c') with
  | '#' :: rest => pyMagicScan rest
  | _ => none

/-- `util.parse_encoding(fp)`; `parses line1` = "`ast.parse(line1)` succeeds" (CPython's parser; a parameter) -/
def parseEncoding (parses : Text → Bool) (b : Bytes) : Except Err (Option Name) :=
  let (line1raw, rest) := readline b
  let hasBom := (stripBom line1raw).isSome
  let line1 := (stripBom line1raw).getD line1raw
  let m :=
    match pyMagicMatch (asciiIgnore line1) with
    | some n => some n
    | none => if parses (asciiIgnore line1) then pyMagicMatch (asciiIgnore (readline rest).1) else none
  if hasBom then
    match m with
    | some _ => .error .syntaxError
    | none => .ok (some Generated.Encoding.parseEncodingBom)
  else .ok m

/-- `util.read_python_file(path)`: the whole file, decoded when an encoding was found, else the raw bytes -/
def readPythonFile (env : Env) (parses : Text → Bool) (b : Bytes) : Except Err Input :=
  match parseEncoding parses b with
  | .error e => .error e
  | .ok none => .ok (.bytes b)
  | .ok (some n) =>
    match env.codecOf n with
    | none => .error (.unknownCodec n)
    | some c =>
      match c.dec b with
      | none => .error (.decodeError n)
      | some t => .ok (.str t)

/-! ## `ModuleInfo.source` -/

/-- `Template.source`: `given` is what was passed as `text=` or read from the file (`util.read_file`);
    `sourceEncoding` is the module's `_source_encoding` (= `lexer.encoding`) -/
def templateSource (env : Env) (given : Input) (sourceEncoding : Option Name) : Except Err Input :=
  match given, sourceEncoding with
  | .bytes b, some (c :: cs) =>
    match env.codecOf (c :: cs) with
    | none => .error (.unknownCodec (c :: cs))
    | some cd =>
      -- "the lexer strips a utf-8 byte order mark before decoding" (repair of F-C18-3, `sourceStripsBom`)
      match cd.dec (if Generated.Encoding.sourceStripsBom then (stripBom b).getD b else b) with
      | none => .error (.decodeError (c :: cs))
      | some t => .ok (.str t)
  | g, _ => .ok g

/-! ## `runtime._render` and `FastEncodingBuffer.getvalue` -/

inductive Output
  | str (t : Text)
  | bytes (b : Bytes)
  deriving DecidableEq, Repr

/-- `str.encode(encoding, errors)`: a parameter (`none` = the call raises) -/
structure EncEnv where
  encode : Name → Name → Text → Option Bytes

/-- `FastEncodingBuffer(encoding, errors)` with the chunks written so far -/
structure Buffer where
  encoding : Option Name
  errors : Name
  data : List Text

def Buffer.write (b : Buffer) (s : Text) : Buffer := { b with data := b.data ++ [s] }

/-- `FastEncodingBuffer.getvalue`: `if self.encoding:` – `None` and `""` mean "no encoding" -/
def Buffer.getvalue (E : EncEnv) (b : Buffer) : Option Output :=
  match b.encoding with
  | some (c :: cs) => (E.encode (c :: cs) b.errors b.data.flatten).map .bytes
  | _ => some (.str b.data.flatten)

structure RenderCfg where
  outputEncoding : Option Name
  errors : Name

/-- `runtime._render(template, callable_, args, data, as_unicode)`: `writes` are the chunks the template body
    writes to the top buffer -/
def render (E : EncEnv) (cfg : RenderCfg) (asUnicode : Bool) (writes : List Text) : Option Output :=
  let buf : Buffer := if asUnicode then ⟨none, ['s', 't', 'r', 'i', 'c', 't'], []⟩
                      else ⟨cfg.outputEncoding, cfg.errors, []⟩
  (writes.foldl Buffer.write buf).getvalue E

/-! ## Vocabulary of the theorems: when the first line decides what `_coding_re` finds

`\s*` after `coding[:=]` may run across line ends, so in general the regex looks beyond the first line.  A first line
is *decisive* when no `coding[:=]` on it is followed by white space only; then the match (or its absence) is a
function of that line alone, given by `lineName`. -/

/-- some `coding[:=]` on the line is followed by nothing but white space up to the end of the line -/
def ranOff : Text → Bool
  | [] => false
  | c :: cs =>
    (match startsCoding (c :: cs) with
     | some tail => tail.all isSpace
     | none => false) || ranOff cs

/-- `\s*([-\w.]+)` inside the line -/
def lineTail (t : Text) : Option Name :=
  let name := (t.dropWhile isSpace).takeWhile isNameChar
  if name.isEmpty then none else some name

def lineScan : Text → Option Name
  | [] => none
  | c :: cs =>
    match lineScan cs with
    | some r => some r
    | none => (startsCoding (c :: cs)).bind lineTail

/-- what `_coding_re` finds on a text whose first line is the decisive line `L` -/
def lineName : Text → Option Name
  | '#' :: rest => lineScan rest
  | _ => none

/-- `L` (without its newline) is ASCII, and decisive -/
def DecisiveLine (L : Text) : Prop := isAsciiText L = true ∧ '\n' ∉ L ∧ ranOff L = false

instance (L : Text) : Decidable (DecisiveLine L) := by unfold DecisiveLine; exact inferInstance

/-- first ASCII character of a text -/
def firstAscii : Text → Option Char
  | [] => none
  | c :: t => if isAsciiChar c then some c else firstAscii t

/-- the guard of `bytes_compile_as_text`: either the first line of the text is ASCII and decisive (with or without a
    coding comment on it), or the first ASCII character of the text is not `#` (so that there is no comment, and
    `bytes.decode("utf-8", "ignore")` cannot make one appear) -/
def HeaderOk (t : Text) : Prop := (∃ L r, t = L ++ '\n' :: r ∧ DecisiveLine L) ∨ firstAscii t ≠ some '#'

/-- a name that can stand in a magic comment: non-empty, ASCII, `[-\w.]` -/
def IsCodecName (n : Name) : Prop := n ≠ [] ∧ ∀ ch ∈ n, isAsciiChar ch = true ∧ isNameChar ch = true

/-! ## fingerprints: what the hand-written transcriptions were written against -/

def modelledCodingRe : String := "#.*coding[:=]\\s*([-\\w.]+).*\\r?\\n"
def modelledPyMagic : String := "[ \\t\\f]* \\# .* coding[=:][ \\t]*([-\\w.]+)"
def modelledBodies : List (String × String) :=
  [("Lexer.decode_raw_stream", "2cb210e5e17a35292f067b14b2d1ae91cec9bf7d"),
   ("util.parse_encoding", "7751794e5e62e40af902c7d4a188075b4cbd3e70"),
   ("util.read_python_file", "56a265c708c4c472d7274df59b8cef6596b5ee75"),
   ("FastEncodingBuffer.getvalue", "ae5126c6880c5bbe218c4321c85c624d705c2ce7"),
   ("runtime._render", "aa78528c72fbe10cefcc82a5a339e793364c50ab"),
   ("ModuleInfo.source", "faa5ec1d6bdabcc11fa2642c030eb8c027f47d30")]

end MakoModel.Encoding
