import MakoModel.Encoding.Agree
/-! Codecs outside / at the edge of the theorems' hypotheses: UTF-16-BE (not ASCII-compatible in any sense: a
non-example) and a two-character cut of shift_jis (ASCII-range trail byte: `AsciiPrefix` holds, strict
`AsciiCompatible` does not). -/
namespace MakoModel.Encoding
open MakoModel.Basic

/-- `ch.encode("utf-16-be")` -/
def utf16beEncChar (c : Char) : Bytes :=
  let n := c.toNat
  if n < 0x10000 then [n / 256, n % 256]
  else
    let m := n - 0x10000
    let hi := 0xD800 + m / 1024
    let lo := 0xDC00 + m % 1024
    [hi / 256, hi % 256, lo / 256, lo % 256]

/-- `bytes.decode("utf-16-be")` for the basic plane (an unpaired surrogate or an odd length is an error; pairs of
surrogates are not put together here – only `enc` matters for what is proved about this codec) -/
def utf16beDec : Bytes → Option Text
  | [] => some []
  | [_] => none
  | hi :: lo :: r =>
    let n := hi * 256 + lo
    if 0xD800 ≤ n ∧ n < 0xE000 then none else (utf16beDec r).map (Char.ofNat n :: ·)

def utf16beCodec : Codec := ⟨utf16beDec, encAll fun c => some (utf16beEncChar c)⟩

theorem utf16be_not_asciiPrefix : ¬ AsciiPrefix utf16beCodec := by
  intro h
  have := h.2 ['a'] [] (by decide)
  revert this
  decide +kernel

theorem utf16be_not_asciiCompatible : ¬ AsciiCompatible utf16beCodec :=
  fun h => utf16be_not_asciiPrefix (asciiPrefix_of_asciiCompatible _ h)

/-- the per-character table of a stateless codec is determined by the codec -/
theorem charwise_unique (c : Codec) (f g : Char → Option Bytes) (hf : Charwise c f) (hg : Charwise c g) (ch : Char) :
    f ch = g ch := by
  have h1 := hf [ch]
  have h2 := hg [ch]
  rw [h1] at h2
  simp only [encAll] at h2
  cases hfc : f ch <;> cases hgc : g ch <;> simp_all

/-- a stateless codec that writes ASCII as itself but gives some non-ASCII character an ASCII-range byte (shift_jis: the
trail bytes 0x40–0x7E) satisfies `AsciiPrefix` and is not `AsciiCompatible` -/
theorem prefix_only (c : Codec) (f : Char → Option Bytes) (hc : Charwise c f)
    (hf : ∀ ch, isAsciiChar ch = true → f ch = some [ch.toNat])
    (hlow : ∃ ch bs x, isAsciiChar ch = false ∧ f ch = some bs ∧ x ∈ bs ∧ x < 128) :
    AsciiPrefix c ∧ ¬ AsciiCompatible c := by
  refine ⟨asciiPrefix_of_charwise c f hc hf, ?_⟩
  rintro ⟨g, hg, _, hhigh⟩
  obtain ⟨ch, bs, x, hch, hbs, hx, hlt⟩ := hlow
  have := (hhigh ch bs hch (by rw [← charwise_unique c f g hc hg ch]; exact hbs)).2 x hx
  omega

/-- the cut of shift_jis: ASCII, and `ソ` (U+30BD) = 83 5C – its trail byte is the ASCII backslash -/
def sjisCutTable (c : Char) : Option Bytes :=
  if c.toNat < 128 then some [c.toNat] else if c = 'ソ' then some [0x83, 0x5C] else none

def sjisCutDec : Bytes → Option Text
  | [] => some []
  | 0x83 :: 0x5C :: r => (sjisCutDec r).map ('ソ' :: ·)
  | b :: r => if b < 128 then (sjisCutDec r).map (Char.ofNat b :: ·) else none

def sjisCut : Codec := ⟨sjisCutDec, encAll sjisCutTable⟩

theorem sjisCut_prefix_only : AsciiPrefix sjisCut ∧ ¬ AsciiCompatible sjisCut :=
  prefix_only sjisCut sjisCutTable (fun _ => rfl)
    (by intro ch h; have : ch.toNat < 128 := by simpa [isAsciiChar] using h
        simp [sjisCutTable, this])
    ⟨'ソ', [0x83, 0x5C], 0x5C, by decide, by decide, by decide, by decide⟩

end MakoModel.Encoding
