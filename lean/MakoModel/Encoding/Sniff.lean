import MakoModel.Encoding.Lemmas
/-! When the first ASCII character of a text is not `#`, `decode_raw_stream` finds no coding comment in its bytes
(for a strictly ASCII-compatible codec): the characters `bytes.decode("utf-8", "ignore")` makes out of non-ASCII bytes
are never `#`, and it never drops an ASCII byte. -/
namespace MakoModel.Encoding
open MakoModel.Basic

/-- first byte below 128 -/
def firstAsciiByte : Bytes → Option Nat
  | [] => none
  | b :: r => if b < 128 then some b else firstAsciiByte r

theorem firstAsciiByte_append_high (hi r : Bytes) (h : ∀ x ∈ hi, 128 ≤ x) :
    firstAsciiByte (hi ++ r) = firstAsciiByte r := by
  induction hi with
  | nil => rfl
  | cons a hi ih =>
    have ha : ¬ a < 128 := by have := h a (by simp); omega
    simp only [List.cons_append, firstAsciiByte, ha, if_false]
    exact ih fun x hx => h x (by simp [hx])

/-- the pending sequence can only end in a code point ≥ 64, and its continuation bytes are non-ASCII -/
def PendingOk (p : Pending) : Prop := 128 ≤ p.lo ∧ (1 ≤ p.acc ∨ (2 ≤ p.need ∧ 129 ≤ p.lo))

theorem classify_lead_ok (b : Nat) (p : Pending) (h : classify b = .lead p) : PendingOk p ∧ 128 ≤ b := by
  unfold classify at h
  repeat' split at h
  all_goals first
    | (cases h; done)
    | (injection h with h; subst h; simp only [PendingOk]; omega)

theorem classify_bad_high (b : Nat) (h : classify b = .bad) : 128 ≤ b := by
  unfold classify at h
  split at h
  · cases h
  · omega

theorem classify_ascii_lt (b : Nat) (h : classify b = .ascii) : b < 128 := by
  unfold classify at h
  repeat' split at h
  all_goals first
    | assumption
    | (cases h; done)

theorem ofNat_eq_hash (k : Nat) (h : Char.ofNat k = '#') : k = 35 := by
  unfold Char.ofNat at h
  split at h
  · rename_i hv
    have : (Char.ofNatAux k hv).toNat = 35 := by rw [h]; rfl
    simpa [Char.ofNatAux, Char.toNat] using this
  · exact absurd h (by decide)

theorem utf8IgnoreGo_head_ne_hash (bs : Bytes) :
    ∀ p : Option Pending, (∀ q, p = some q → PendingOk q) → firstAsciiByte bs ≠ some 35 →
      (utf8IgnoreGo p bs).head? ≠ some '#' := by
  induction bs with
  | nil => intro p _ _; cases p <;> simp [utf8IgnoreGo]
  | cons b r ih =>
    intro p hp hfa
    -- what happens when `b` is looked at as the start of a sequence
    have fresh : (match classify b with
                  | .ascii => Char.ofNat b :: utf8IgnoreGo none r
                  | .lead q => utf8IgnoreGo (some q) r
                  | .bad => utf8IgnoreGo none r).head? ≠ some '#' := by
      cases hcl : classify b with
      | ascii =>
        have hb := classify_ascii_lt b hcl
        simp only [firstAsciiByte, hb, if_true, ne_eq, Option.some.injEq] at hfa
        simp only [List.head?_cons, ne_eq, Option.some.injEq]
        exact fun h => hfa (ofNat_eq_hash b h)
      | lead q =>
        obtain ⟨hq, hb⟩ := classify_lead_ok b q hcl
        have : firstAsciiByte r ≠ some 35 := by
          simpa [firstAsciiByte, show ¬ b < 128 by omega] using hfa
        exact ih (some q) (by intro q' h; cases h; exact hq) this
      | bad =>
        have hb := classify_bad_high b hcl
        have : firstAsciiByte r ≠ some 35 := by
          simpa [firstAsciiByte, show ¬ b < 128 by omega] using hfa
        exact ih none (by intro q h; cases h) this
    cases p with
    | none => rw [utf8IgnoreGo]; exact fresh
    | some q =>
      have hq := hp q rfl
      rw [utf8IgnoreGo]
      split
      · rename_i hin
        have hb : ¬ b < 128 := by have := hq.1; omega
        have hr : firstAsciiByte r ≠ some 35 := by simpa [firstAsciiByte, hb] using hfa
        split
        · rename_i hneed
          simp only [List.head?_cons, ne_eq, Option.some.injEq]
          intro h
          have := ofNat_eq_hash _ h
          rcases hq.2 with h1 | h1 <;> omega
        · rename_i hneed
          refine ih _ ?_ hr
          intro q' h
          cases h
          refine ⟨by simp, ?_⟩
          simp only
          rcases hq.2 with h1 | h1
          · left; omega
          · left; omega
      · exact fresh

theorem codingMatch_none_of_head (t : Text) (h : t.head? ≠ some '#') : codingMatch t = none := by
  unfold codingMatch
  split
  · simp at h
  · rfl

theorem sniff_none_of_firstAsciiByte (b : Bytes) (h : firstAsciiByte b ≠ some 35) : sniff b = none := by
  simp [sniff, codingName, utf8Ignore,
    codingMatch_none_of_head _ (utf8IgnoreGo_head_ne_hash b none (by intro q h; cases h) h)]

theorem codingName_none_of_head (t : Text) (hh : t.head? = some '#' → False) :
    codingName t = none := by
  simp [codingName, codingMatch_none_of_head t (fun h' => hh h')]

theorem head_hash_firstAscii (t : Text) (h : t.head? = some '#') : firstAscii t = some '#' := by
  cases t with
  | nil => simp at h
  | cons c t =>
    simp only [List.head?_cons, Option.some.injEq] at h
    subst h
    simp [firstAscii, isAsciiChar]

theorem toNat_eq_35 (c : Char) (h : c.toNat = 35) : c = '#' := by
  rw [← char_ofNat_toNat c, h]

/-- for a strictly ASCII-compatible codec the first ASCII byte of the encoding is the first ASCII character -/
theorem firstAsciiByte_enc (f : Char → Option Bytes)
    (hf : ∀ ch, isAsciiChar ch = true → f ch = some [ch.toNat])
    (hh : ∀ ch bs, isAsciiChar ch = false → f ch = some bs → bs ≠ [] ∧ ∀ x ∈ bs, 128 ≤ x)
    (t : Text) (b : Bytes) (he : encAll f t = some b) (h : firstAscii t ≠ some '#') :
    firstAsciiByte b ≠ some 35 := by
  induction t generalizing b with
  | nil => simp [encAll] at he; subst he; simp [firstAsciiByte]
  | cons c t ih =>
    simp only [encAll] at he
    cases hc : f c with
    | none => simp [hc] at he
    | some a =>
      cases ht : encAll f t with
      | none => simp [hc, ht] at he
      | some b' =>
        simp only [hc, ht, Option.some.injEq] at he
        subst he
        by_cases hasc : isAsciiChar c = true
        · rw [hf c hasc] at hc
          cases hc
          have hlt : c.toNat < 128 := by simpa [isAsciiChar] using hasc
          simp only [firstAscii, hasc, if_true, ne_eq, Option.some.injEq] at h
          simp only [List.singleton_append, firstAsciiByte, hlt, if_true, ne_eq, Option.some.injEq]
          exact fun h35 => h (toNat_eq_35 c h35)
        · have hasc' : isAsciiChar c = false := by simpa using hasc
          rw [firstAsciiByte_append_high a b' (hh c a hasc' hc).2]
          apply ih b' ht
          simpa [firstAscii, hasc'] using h

theorem sniff_none_of_firstAscii (c : Codec) (hA : AsciiCompatible c) (t : Text) (b : Bytes)
    (he : c.enc t = some b) (h : firstAscii t ≠ some '#') : sniff b = none ∧ codingName t = none := by
  obtain ⟨f, hc, hf, hh⟩ := hA
  rw [hc] at he
  exact ⟨sniff_none_of_firstAsciiByte b (firstAsciiByte_enc f hf hh t b he h),
    codingName_none_of_head t fun hd => h (head_hash_firstAscii t hd)⟩

/-- the bytes of such a text do not start with the UTF-8 BOM unless the text starts with a non-ASCII character -/
theorem stripBom_ascii_head (x : Nat) (r : Bytes) (h : x < 128) : stripBom (x :: r) = none := by
  have h1 : Generated.Encoding.bom = [0xEF, 0xBB, 0xBF] := by decide
  simp only [stripBom, h1, List.isPrefixOf]
  have : ¬ (239 = x) := by omega
  simp [this]

end MakoModel.Encoding
