import MakoModel.Encoding.Lemmas
/-! The concrete codecs (UTF-8, latin-1, ascii) satisfy the codec laws: they are the non-vacuity witnesses of
the theorems about abstract codecs. -/
namespace MakoModel.Encoding
open MakoModel.Basic

/-! ### one byte per character -/

theorem byteCodec_charwise (limit : Nat) :
    Charwise (byteCodec limit) (fun c => if c.toNat < limit then some [c.toNat] else none) := fun _ => rfl

theorem byteCodec_asciiCompatible (limit : Nat) (h : 128 ≤ limit) : AsciiCompatible (byteCodec limit) := by
  refine ⟨_, byteCodec_charwise limit, ?_, ?_⟩
  · intro ch hch
    have : ch.toNat < 128 := by simpa [isAsciiChar] using hch
    simp [show ch.toNat < limit by omega]
  · intro ch bs hch hbs
    have : ¬ ch.toNat < 128 := by simpa [isAsciiChar] using hch
    by_cases hl : ch.toNat < limit
    · simp only [hl, if_true, Option.some.injEq] at hbs
      subst hbs
      simp; omega
    · simp [hl] at hbs

theorem byteCodec_enc_some (limit : Nat) (t : Text) (b : Bytes) (h : (byteCodec limit).enc t = some b) :
    b = t.map Char.toNat ∧ ∀ x ∈ b, x < limit := by
  induction t generalizing b with
  | nil => simp [byteCodec, encAll] at h; subst h; simp
  | cons c t ih =>
    simp only [byteCodec, encAll] at h
    by_cases hc : c.toNat < limit
    · simp only [hc, if_true] at h
      cases ht : encAll (fun c => if c.toNat < limit then some [c.toNat] else none) t with
      | none => simp [ht] at h
      | some b' =>
        simp only [ht, Option.some.injEq] at h
        subst h
        obtain ⟨h1, h2⟩ := ih b' ht
        subst h1
        refine ⟨by simp, ?_⟩
        intro x hx
        simp only [List.singleton_append, List.mem_cons] at hx
        rcases hx with rfl | hx
        · exact hc
        · exact h2 x hx
    · simp [hc] at h

theorem byteCodec_roundTrip (limit : Nat) : RoundTrip (byteCodec limit) := by
  intro t b h
  obtain ⟨rfl, hlt⟩ := byteCodec_enc_some limit t _ h
  have hall : ∀ a ∈ t, a.toNat < limit := fun a ha => hlt _ (List.mem_map_of_mem ha)
  simp [byteCodec, List.map_map, Function.comp_def]
  exact hall

theorem latin1_asciiCompatible : AsciiCompatible latin1Codec := byteCodec_asciiCompatible 256 (by decide)
theorem latin1_roundTrip : RoundTrip latin1Codec := byteCodec_roundTrip 256
theorem ascii_asciiCompatible : AsciiCompatible asciiCodec := byteCodec_asciiCompatible 128 (by decide)
theorem ascii_roundTrip : RoundTrip asciiCodec := byteCodec_roundTrip 128

/-! ### UTF-8 -/

theorem char_valid_nat (c : Char) : c.toNat < 0xD800 ∨ (0xDFFF < c.toNat ∧ c.toNat < 0x110000) := c.valid

theorem classify_lead2 (n : Nat) (h1 : ¬ n < 0x80) (h2 : n < 0x800) :
    classify (0xC0 + n / 64) = .lead ⟨1, n / 64, 0x80, 0xBF⟩ := by
  unfold classify
  rw [if_neg (by omega), if_neg (by omega), if_pos (by omega), Nat.add_sub_cancel_left]

theorem classify_lead3 (n : Nat) (h2 : ¬ n < 0x800) (h3 : n < 0x10000) :
    classify (0xE0 + n / 4096) =
      .lead (if n / 4096 = 0 then ⟨2, 0, 0xA0, 0xBF⟩ else if n / 4096 = 13 then ⟨2, 13, 0x80, 0x9F⟩
             else ⟨2, n / 4096, 0x80, 0xBF⟩) := by
  unfold classify
  rw [if_neg (by omega), if_neg (by omega), if_neg (by omega)]
  by_cases hE0 : n / 4096 = 0
  · rw [if_pos (by omega), if_pos hE0]
  · rw [if_neg (by omega), if_neg hE0]
    by_cases hED : n / 4096 = 13
    · rw [if_pos (by omega), if_pos hED]
    · rw [if_neg (by omega), if_neg hED, if_pos (by omega), Nat.add_sub_cancel_left]

theorem classify_lead4 (n : Nat) (h3 : ¬ n < 0x10000) (h4 : n < 0x110000) :
    classify (0xF0 + n / 262144) =
      .lead (if n / 262144 = 0 then ⟨3, 0, 0x90, 0xBF⟩ else if n / 262144 = 4 then ⟨3, 4, 0x80, 0x8F⟩
             else ⟨3, n / 262144, 0x80, 0xBF⟩) := by
  unfold classify
  rw [if_neg (by omega), if_neg (by omega), if_neg (by omega), if_neg (by omega), if_neg (by omega),
    if_neg (by omega)]
  by_cases hF0 : n / 262144 = 0
  · rw [if_pos (by omega), if_pos hF0]
  · rw [if_neg (by omega), if_neg hF0]
    by_cases hF4 : n / 262144 = 4
    · rw [if_neg (by omega), if_pos (by omega), if_pos hF4]
    · rw [if_pos (by omega), if_neg hF4, Nat.add_sub_cancel_left]

/-- one continuation byte in range, more to come -/
theorem strict_cont (p : Pending) (b : Nat) (r : Bytes) (h1 : p.lo ≤ b) (h2 : b ≤ p.hi) (h3 : ¬ p.need ≤ 1) :
    utf8StrictGo (some p) (b :: r) = utf8StrictGo (some ⟨p.need - 1, p.acc * 64 + (b - 0x80), 0x80, 0xBF⟩) r := by
  rw [utf8StrictGo, if_pos ⟨h1, h2⟩, if_neg h3]

/-- the last continuation byte -/
theorem strict_last (p : Pending) (b : Nat) (r : Bytes) (h1 : p.lo ≤ b) (h2 : b ≤ p.hi) (h3 : p.need ≤ 1) :
    utf8StrictGo (some p) (b :: r) = (utf8StrictGo none r).map (Char.ofNat (p.acc * 64 + (b - 0x80)) :: ·) := by
  rw [utf8StrictGo, if_pos ⟨h1, h2⟩, if_pos h3]

theorem strict_lead (b : Nat) (p : Pending) (r : Bytes) (h : classify b = .lead p) :
    utf8StrictGo none (b :: r) = utf8StrictGo (some p) r := by
  rw [utf8StrictGo, h]

theorem utf8Strict_encChar (c : Char) (rest : Bytes) :
    utf8StrictGo none (utf8EncChar c ++ rest) = (utf8StrictGo none rest).map (c :: ·) := by
  have hv := char_valid_nat c
  have hc := char_ofNat_toNat c
  generalize hn : c.toNat = n at hv hc
  unfold utf8EncChar
  simp only [hn]
  by_cases h1 : n < 0x80
  · rw [if_pos h1, List.singleton_append, utf8StrictGo, classify_ascii n h1, hc]
  · rw [if_neg h1]
    by_cases h2 : n < 0x800
    · rw [if_pos h2]
      simp only [List.cons_append, List.nil_append]
      rw [strict_lead _ _ _ (classify_lead2 n h1 h2), strict_last _ _ _ (by simp) (by simp; omega) (by simp)]
      have hacc : n / 64 * 64 + (0x80 + n % 64 - 0x80) = n := by omega
      simp only [hacc, hc]
    · rw [if_neg h2]
      by_cases h3 : n < 0x10000
      · rw [if_pos h3]
        simp only [List.cons_append, List.nil_append]
        rw [strict_lead _ _ _ (classify_lead3 n h2 h3)]
        by_cases hE0 : n / 4096 = 0
        · simp only [hE0, if_true]
          rw [strict_cont _ _ _ (by simp; omega) (by simp; omega) (by simp),
            strict_last _ _ _ (by simp) (by simp; omega) (by simp)]
          have : (0 * 64 + (0x80 + n / 64 % 64 - 0x80)) * 64 + (0x80 + n % 64 - 0x80) = n := by omega
          simp only [this, hc]
        · by_cases hED : n / 4096 = 13
          · simp only [hED, if_true, show ¬ (13 = 0) by decide, if_false]
            rw [strict_cont _ _ _ (by simp) (by simp; omega) (by simp),
              strict_last _ _ _ (by simp) (by simp; omega) (by simp)]
            have : (13 * 64 + (0x80 + n / 64 % 64 - 0x80)) * 64 + (0x80 + n % 64 - 0x80) = n := by omega
            simp only [this, hc]
          · simp only [hE0, hED, if_false]
            rw [strict_cont _ _ _ (by simp) (by simp; omega) (by simp),
              strict_last _ _ _ (by simp) (by simp; omega) (by simp)]
            have : (n / 4096 * 64 + (0x80 + n / 64 % 64 - 0x80)) * 64 + (0x80 + n % 64 - 0x80) = n := by omega
            simp only [this, hc]
      · rw [if_neg h3]
        have h4 : n < 0x110000 := by omega
        simp only [List.cons_append, List.nil_append]
        rw [strict_lead _ _ _ (classify_lead4 n h3 h4)]
        by_cases hF0 : n / 262144 = 0
        · simp only [hF0, if_true]
          rw [strict_cont _ _ _ (by simp; omega) (by simp; omega) (by simp),
            strict_cont _ _ _ (by simp) (by simp; omega) (by simp),
            strict_last _ _ _ (by simp) (by simp; omega) (by simp)]
          have : ((0 * 64 + (0x80 + n / 4096 % 64 - 0x80)) * 64 + (0x80 + n / 64 % 64 - 0x80)) * 64
              + (0x80 + n % 64 - 0x80) = n := by omega
          simp only [this, hc]
        · by_cases hF4 : n / 262144 = 4
          · simp only [hF4, if_true, show ¬ (4 = 0) by decide, if_false]
            rw [strict_cont _ _ _ (by simp) (by simp; omega) (by simp),
              strict_cont _ _ _ (by simp) (by simp; omega) (by simp),
              strict_last _ _ _ (by simp) (by simp; omega) (by simp)]
            have : ((4 * 64 + (0x80 + n / 4096 % 64 - 0x80)) * 64 + (0x80 + n / 64 % 64 - 0x80)) * 64
                + (0x80 + n % 64 - 0x80) = n := by omega
            simp only [this, hc]
          · simp only [hF0, hF4, if_false]
            rw [strict_cont _ _ _ (by simp) (by simp; omega) (by simp),
              strict_cont _ _ _ (by simp) (by simp; omega) (by simp),
              strict_last _ _ _ (by simp) (by simp; omega) (by simp)]
            have : ((n / 262144 * 64 + (0x80 + n / 4096 % 64 - 0x80)) * 64 + (0x80 + n / 64 % 64 - 0x80)) * 64
                + (0x80 + n % 64 - 0x80) = n := by omega
            simp only [this, hc]

theorem utf8_charwise : Charwise utf8Codec (fun c => some (utf8EncChar c)) := fun _ => rfl

theorem utf8_enc_total (t : Text) : ∃ b, utf8Codec.enc t = some b := by
  induction t with
  | nil => exact ⟨[], rfl⟩
  | cons c t ih =>
    obtain ⟨b, hb⟩ := ih
    exact ⟨utf8EncChar c ++ b, by simp only [utf8Codec, encAll] at hb ⊢; simp [hb]⟩

theorem utf8_roundTrip : RoundTrip utf8Codec := by
  intro t
  induction t with
  | nil => intro b h; simp [utf8Codec, encAll] at h; subst h; rfl
  | cons c t ih =>
    intro b h
    simp only [utf8Codec, encAll] at h
    cases ht : encAll (fun c => some (utf8EncChar c)) t with
    | none => simp [ht] at h
    | some b' =>
      simp only [ht, Option.some.injEq] at h
      subst h
      have := ih b' (by simpa [utf8Codec] using ht)
      simp only [utf8Codec, utf8Strict] at this ⊢
      rw [utf8Strict_encChar, this]; rfl

theorem utf8_asciiCompatible : AsciiCompatible utf8Codec := by
  refine ⟨_, utf8_charwise, ?_, ?_⟩
  · intro ch hch
    have : ch.toNat < 128 := by simpa [isAsciiChar] using hch
    simp [utf8EncChar, this]
  · intro ch bs hch hbs
    have h1 : ¬ ch.toNat < 128 := by simpa [isAsciiChar] using hch
    simp only [Option.some.injEq] at hbs
    subst hbs
    unfold utf8EncChar
    simp only [h1, if_false]
    split
    · simp; omega
    · split
      · simp; omega
      · simp; omega

end MakoModel.Encoding
