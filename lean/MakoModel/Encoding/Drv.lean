import MakoModel.Basic.Wire
import MakoModel.Encoding.Model
/-! Driver handler for the encoding model: `encd <fn> <args…>`.
Byte strings travel like strings (comma-separated decimals, `-` = empty). An optional name is `none` or a string field. -/
namespace MakoModel.Encoding.Drv
open MakoModel.Wire MakoModel.Encoding

def decBytes (f : String) : Option Bytes :=
  if f == "-" then some [] else (f.splitOn ",").mapM fun t => t.toNat?

def encBytes (b : Bytes) : String :=
  if b.isEmpty then "-" else ",".intercalate (b.map toString)

def decOptName (f : String) : Option (Option Name) :=
  if f == "none" then some none else (decStr f).map some

/-- the codecs the driver can run itself (every other codec is run by the harness, as the abstract `Codec`) -/
def leanCodecs : Env where
  isUtf8 n := Generated.Encoding.utf8Aliases.contains n
  codecOf n :=
    let s := String.ofList n
    if Generated.Encoding.utf8Aliases.contains n then some utf8Codec
    else if s ∈ ["latin-1", "latin1", "iso-8859-1", "LATIN-1"] then some latin1Codec
    else if s ∈ ["ascii", "us-ascii", "ASCII"] then some asciiCodec
    else none

def errStr : Err → String
  | .bomConflict n => "err bomConflict " ++ encStr n
  | .undecodable n => "err undecodable " ++ encStr n
  | .unknownCodec n => "err unknownCodec " ++ encStr n
  | .unencodable n => "err unencodable " ++ encStr n
  | .decodeError n => "err decodeError " ++ encStr n
  | .syntaxError => "err syntaxError -"
  | .preprocessorOnBytes => "err preprocessorOnBytes -"

def inputStr : Input → String
  | .str t => "str " ++ encStr t
  | .bytes b => "bytes " ++ encBytes b

/-- a marker "encoder": the bytes spell out which encode call `render` makes (the harness performs it) -/
def markEnv : EncEnv where
  encode n e t := some (n.map Char.toNat ++ [1114112] ++ e.map Char.toNat ++ [1114112] ++ t.map Char.toNat)

def npOf (l : Text) : Char → Bool := fun c => l.contains c

def fpStr : String :=
  let same (k : String) : Bool :=
    (Generated.Encoding.bodyFingerprints.lookup k) == (modelledBodies.lookup k)
  " ".intercalate
    ([("coding_re", Generated.Encoding.codingRePattern == modelledCodingRe),
      ("pymagic_re", Generated.Encoding.pyMagicPattern == modelledPyMagic && Generated.Encoding.pyMagicVerbose),
      ("sniff", Generated.Encoding.sniffCodec == "utf-8" && Generated.Encoding.sniffErrors == "ignore"),
      ("line", Generated.Encoding.lineCodec == "ascii" && Generated.Encoding.lineErrors == "ignore"),
      ("caught", Generated.Encoding.decodeErrorCaught == "UnicodeDecodeError"),
      ("skips", Generated.Encoding.parseSkipsCodingComment),
      ("bomStripped", Generated.Encoding.bomStripped)].map (fun p => p.1 ++ "=" ++ encBool p.2)
     ++ modelledBodies.map (fun p => p.1 ++ "=" ++ encBool (same p.1)))

def handle : Handler
  | ["coding", t] => do
      let t ← decStr t
      pure (match codingMatch t with
            | none => "none"
            | some (n, rest) => "some " ++ encStr n ++ " " ++ toString (t.length - rest.length))
  | ["skip", t] => do let t ← decStr t; pure (toString (codingSkip t))
  | ["pymagic", t] => do let t ← decStr t; pure (encOpt encStr (pyMagicMatch t))
  | ["u8i", b] => do let b ← decBytes b; pure (encStr (utf8Ignore b))
  | ["u8s", b] => do let b ← decBytes b; pure (encOpt (fun t => "some " ++ encStr t) (utf8Strict b))
  | ["u8e", t] => do let t ← decStr t; pure (encOpt encBytes (utf8Codec.enc t))
  | ["bomsniff", b] => do
      let b ← decBytes b
      pure (match stripBom b with
            | some r => encOpt encStr (sniff r)
            | none => "none")
  | ["ascii", t] => do let t ← decStr t; pure (encStr (pyAscii t))
  | ["choose", b, k, u8] => do
      -- `u8`: the registry's answer `_is_utf8(name)` for the comment found behind a BOM (given by the harness)
      let b ← decBytes b; let k ← decOptName k; let u8 ← decBool u8
      pure (match chooseBytes ⟨fun _ => none, fun _ => u8⟩ b k with
            | .error e => errStr e
            | .ok (n, r) => "ok " ++ encStr n ++ " " ++ encBool (r.length != b.length))
  | ["strenc", t, k] => do let t ← decStr t; let k ← decOptName k; pure (encStr (chooseStr t k))
  | ["drs", b, raw, k] => do
      let b ← decBytes b; let raw ← decBool raw; let k ← decOptName k
      pure (match decodeRawStream leanCodecs (.bytes b) raw k with
            | .error e => errStr e
            | .ok (n, i) => "ok " ++ encStr n ++ " " ++ inputStr i)
  | ["lex", b, k] => do
      let b ← decBytes b; let k ← decOptName k
      pure (match lexStart leanCodecs (.bytes b) k with
            | .error e => errStr e
            | .ok l => "ok " ++ encStr l.encoding ++ " " ++ encStr l.text ++ " " ++ toString l.start)
  | ["lexstr", t, k] => do
      let t ← decStr t; let k ← decOptName k
      pure (match lexStart leanCodecs (.str t) k with
            | .error e => errStr e
            | .ok l => "ok " ++ encStr l.encoding ++ " " ++ encStr l.text ++ " " ++ toString l.start)
  | ["penc", p, b] => do
      let p ← decBool p; let b ← decBytes b
      pure (match parseEncoding (fun _ => p) b with
            | .error e => errStr e
            | .ok none => "none"
            | .ok (some n) => "name " ++ encStr n)
  | ["rpf", p, b] => do
      let p ← decBool p; let b ← decBytes b
      pure (match readPythonFile leanCodecs (fun _ => p) b with
            | .error e => errStr e
            | .ok i => "ok " ++ inputStr i)
  | ["repr", t, np] => do let t ← decStr t; let np ← decStr np; pure (encStr (pyRepr (npOf np) t))
  | ["magic", n] => do let n ← decStr n; pure (encStr (magicLine n))
  | "modhead" :: n :: future => do
      -- the first lines of a module file: magic comment and `from __future__ import` line, in the order of write_toplevel
      let n ← decStr n; let future ← future.mapM decStr
      pure (encStr (moduleText (fun _ => false) (some n) Generated.Encoding.magicInModuleFile future []))
  | ["preorder"] => some (encBool Generated.Encoding.decodeBeforePreprocessors ++ " " ++ encBool Generated.Encoding.skipAfterPreprocessors)
  | ["modenc", k] => do let k ← decOptName k; pure (encStr (orDefault k Generated.Encoding.moduleFallback))
  | "modfile" :: k :: t :: future => do
      -- a module whose body is one `code` piece, encoded with a Lean codec
      let k ← decOptName k; let t ← decStr t; let future ← future.mapM decStr
      pure (match compileModuleFile leanCodecs (fun _ => false) k future [.code t] with
            | .error e => errStr e
            | .ok b => "ok " ++ encBytes b)
  | ["source", b, k] => do
      let b ← decBytes b; let k ← decOptName k
      pure (match templateSource leanCodecs (.bytes b) k with
            | .error e => errStr e
            | .ok i => "ok " ++ inputStr i)
  | "render" :: oe :: errors :: asu :: ws => do
      let oe ← decOptName oe; let errors ← decStr errors; let asu ← decBool asu
      let ws ← ws.mapM decStr
      pure (match render markEnv ⟨oe, errors⟩ asu ws with
            | none => "raise"
            | some (.str t) => "str " ++ encStr t
            | some (.bytes b) => "bytes " ++ encBytes b)
  | ["fp"] => some fpStr
  | _ => none

end MakoModel.Encoding.Drv
