import MakoModel.Encoding.Lemmas
/-! Lemmas about the generated module: its magic comment is what `parse_encoding` finds, `repr` adds only ASCII,
a module made of ASCII scaffolding and encodable payload is encodable.  Obligations on the regenerated constants
are stated here by name (`magic_format`, `module_file_has_magic`, `bom_is_utf8_bom`, `defaults_are_utf8`,
`bom_compared_by_codec`, `source_strips_bom`, `names_written_ascii`, `alias_table_has_utf8`). -/
namespace MakoModel.Encoding
open MakoModel.Basic

/-! ### obligations on the constants regenerated from /repo -/

/-- the magic comment written by `codegen.write_toplevel` is `# -*- coding:<name> -*-` -/
theorem magic_format :
    Generated.Encoding.magicPrefix = ['#', ' ', '-', '*', '-', ' ', 'c', 'o', 'd', 'i', 'n', 'g', ':'] ∧
    Generated.Encoding.magicSuffix = [' ', '-', '*', '-'] := by decide

/-- `_compile_module_file` asks for the magic comment, `_compile_text` does not -/
theorem module_file_has_magic :
    Generated.Encoding.magicInModuleFile = true ∧ Generated.Encoding.magicInText = false := by decide

/-- `codecs.BOM_UTF8` -/
theorem bom_is_utf8_bom : Generated.Encoding.bom = [0xEF, 0xBB, 0xBF] := by decide

def utf8Name : Name := ['u', 't', 'f', '-', '8']

/-- "UTF-8 being the default": all four literals of `decode_raw_stream` are `"utf-8"` -/
theorem defaults_are_utf8 :
    Generated.Encoding.defaultStr = utf8Name ∧ Generated.Encoding.defaultBytes = utf8Name ∧
    Generated.Encoding.bomEncoding = utf8Name ∧ Generated.Encoding.bomCompare = utf8Name := by decide

/-- the BOM branch compares the comment by codec (F-C18-1 repaired) -/
theorem bom_compared_by_codec : Generated.Encoding.bomCompareByCodec = true := by decide

/-- the regenerated alias table – the tested instance of `Env.isUtf8`, used by the driver – calls `"utf-8"` utf-8
    (the interpreter's registry was probed and answered for the canonical name) -/
theorem alias_table_has_utf8 : Generated.Encoding.utf8Aliases.contains utf8Name = true := by decide

/-- `ModuleInfo.source` drops the BOM before decoding (F-C18-3 repaired) -/
theorem source_strips_bom : Generated.Encoding.sourceStripsBom = true := by decide

/-- file name and uri are written with `%a` (F-C18-4 repaired) -/
theorem names_written_ascii : Generated.Encoding.namesWrittenAscii = true := by decide

/-- `write_toplevel` writes the magic comment first, before the `from __future__ import` line -/
theorem magic_comment_first : Generated.Encoding.magicCommentFirst = true := by decide

/-- `Lexer.parse` decodes before it runs the preprocessors, and skips the coding comment after them -/
theorem decode_precedes_preprocessors :
    Generated.Encoding.decodeBeforePreprocessors = true ∧ Generated.Encoding.skipAfterPreprocessors = true := by decide

/-- the `from __future__ import` line is ASCII apart from the names it lists -/
theorem future_format_ascii :
    isAsciiText Generated.Encoding.futurePrefix = true ∧ isAsciiText Generated.Encoding.futureSep = true := by decide

/-! ### names -/

theorem IsCodecName.no_nl {n : Name} (h : IsCodecName n) : '\n' ∉ n := fun hm => by
  have := (h.2 _ hm).2; rw [nl_not_name] at this; cases this

theorem IsCodecName.no_colon {n : Name} (h : IsCodecName n) : ':' ∉ n := fun hm => by
  have := (h.2 _ hm).2; rw [colon_not_name] at this; cases this

theorem IsCodecName.no_eq {n : Name} (h : IsCodecName n) : '=' ∉ n := fun hm => by
  have := (h.2 _ hm).2; rw [eq_not_name] at this; cases this

theorem IsCodecName.ascii {n : Name} (h : IsCodecName n) : isAsciiText n = true := by
  simp only [isAsciiText, List.all_eq_true]
  exact fun ch hm => (h.2 ch hm).1

theorem IsCodecName.allName {n : Name} (h : IsCodecName n) : n.all isNameChar = true := by
  simp only [List.all_eq_true]
  exact fun ch hm => (h.2 ch hm).2

theorem isBlank_not_name (c : Char) (h : isNameChar c = true) : isBlank c = false := by
  cases hb : isBlank c with
  | false => rfl
  | true =>
    simp only [isBlank, Bool.or_eq_true, beq_iff_eq] at hb
    rcases hb with rfl | rfl
    · rw [space_not_name] at h; cases h
    · rw [tab_not_name] at h; cases h

/-! ### `parse_encoding` on a file that starts with the magic comment -/

theorem toNat_eq_ten (c : Char) (h : c.toNat = 10) : c = '\n' := by
  rw [← char_ofNat_toNat c, h]

theorem readline_asciiLine (l : Text) (rest : Bytes) (h : '\n' ∉ l) :
    readline (asciiBytes (l ++ ['\n']) ++ rest) = (asciiBytes (l ++ ['\n']), rest) := by
  induction l with
  | nil => simp [asciiBytes, readline]
  | cons c l ih =>
    simp only [List.mem_cons, not_or] at h
    have hc : c.toNat ≠ 10 := fun hh => h.1 (toNat_eq_ten c hh).symm
    show readline (c.toNat :: (asciiBytes (l ++ ['\n']) ++ rest)) = (c.toNat :: asciiBytes (l ++ ['\n']), rest)
    rw [readline, if_neg hc, ih h.2]

theorem asciiIgnore_asciiBytes (l : Text) (h : isAsciiText l = true) : asciiIgnore (asciiBytes l) = l := by
  induction l with
  | nil => rfl
  | cons c l ih =>
    simp only [isAsciiText, List.all_cons, Bool.and_eq_true] at h
    have hc : c.toNat < 128 := by simpa [isAsciiChar] using h.1
    have := ih (by simpa [isAsciiText] using h.2)
    simp only [asciiIgnore, asciiBytes] at this ⊢
    simp [hc, this]

theorem stripBom_hash (x : Bytes) : stripBom (35 :: x) = none := by
  simp [stripBom, bom_is_utf8_bom]

theorem pyMagicScan_cons_ne (a : Char) (s : Text) (ha : a ≠ 'c') (hn : a ≠ '\n') :
    pyMagicScan (a :: s) = pyMagicScan s := by
  simp only [pyMagicScan, hn, if_false, startsCoding_of_ne_c a s ha]
  cases pyMagicScan s <;> simp

theorem pyMagicScan_none_of_no_sep (s : Text) (h1 : ':' ∉ s) (h2 : '=' ∉ s) : pyMagicScan s = none := by
  induction s with
  | nil => rfl
  | cons a s ih =>
    simp only [List.mem_cons, not_or] at h1 h2
    have hs : startsCoding (a :: s) = none := by
      cases h : startsCoding (a :: s) with
      | none => rfl
      | some r =>
        rcases startsCoding_some_sep _ _ h with hm | hm
        · simp only [List.mem_cons] at hm; rcases hm with hm | hm
          · exact absurd hm h1.1
          · exact absurd hm h1.2
        · simp only [List.mem_cons] at hm; rcases hm with hm | hm
          · exact absurd hm h2.1
          · exact absurd hm h2.2
    simp only [pyMagicScan, ih h1.2 h2.2, hs]
    split <;> rfl

theorem pyMagicTail_name (n x : Text) (hn : IsCodecName n) : pyMagicTail (n ++ ' ' :: x) = some n := by
  obtain ⟨c, cs, rfl⟩ := List.exists_cons_of_ne_nil hn.1
  have hcb : isBlank c = false := isBlank_not_name c (hn.2 c (by simp)).2
  have h1 : ((c :: cs) ++ ' ' :: x).dropWhile isBlank = (c :: cs) ++ ' ' :: x := by
    simp [hcb]
  have h2 : ((c :: cs) ++ ' ' :: x).takeWhile isNameChar = c :: cs := by
    rw [takeWhile_append_stop _ _ _ _ space_not_name, takeWhile_all _ _ hn.allName]
  unfold pyMagicTail
  simp only [h1, h2]
  simp

theorem pyMagicMatch_magicLine (n : Name) (hn : IsCodecName n) : pyMagicMatch (magicLine n ++ ['\n']) = some n := by
  have hX1 : ':' ∉ n ++ [' ', '-', '*', '-', '\n'] := by
    intro h; rcases List.mem_append.1 h with h | h
    · exact hn.no_colon h
    · simp at h
  have hX2 : '=' ∉ n ++ [' ', '-', '*', '-', '\n'] := by
    intro h; rcases List.mem_append.1 h with h | h
    · exact hn.no_eq h
    · simp at h
  have hnone := pyMagicScan_none_of_no_sep _ hX1 hX2
  have hsc : startsCoding ('c' :: 'o' :: 'd' :: 'i' :: 'n' :: 'g' :: ':' :: (n ++ [' ', '-', '*', '-', '\n'])) =
      some (n ++ [' ', '-', '*', '-', '\n']) := (startsCoding_eq_some _ _).2 ⟨':', Or.inl rfl, rfl⟩
  have key : pyMagicScan (' ' :: '-' :: '*' :: '-' :: ' ' :: 'c' :: 'o' :: 'd' :: 'i' :: 'n' :: 'g' :: ':' ::
      (n ++ [' ', '-', '*', '-', '\n'])) = some n := by
    rw [pyMagicScan_cons_ne _ _ (by decide) (by decide), pyMagicScan_cons_ne _ _ (by decide) (by decide),
      pyMagicScan_cons_ne _ _ (by decide) (by decide), pyMagicScan_cons_ne _ _ (by decide) (by decide),
      pyMagicScan_cons_ne _ _ (by decide) (by decide)]
    rw [pyMagicScan]
    rw [pyMagicScan_cons_ne _ _ (by decide) (by decide), pyMagicScan_cons_ne _ _ (by decide) (by decide),
      pyMagicScan_cons_ne _ _ (by decide) (by decide), pyMagicScan_cons_ne _ _ (by decide) (by decide),
      pyMagicScan_cons_ne _ _ (by decide) (by decide), pyMagicScan_cons_ne _ _ (by decide) (by decide), hnone, hsc]
    simp only [show ¬ ('c' = '\n') by decide, if_false, Option.bind_some]
    exact pyMagicTail_name n _ hn
  simp only [magicLine, magic_format.1, magic_format.2, List.append_assoc, List.cons_append, List.nil_append,
    pyMagicMatch]
  simp [List.dropWhile]
  simpa using key

theorem magicLine_ascii (n : Name) (hn : IsCodecName n) : isAsciiText (magicLine n ++ ['\n']) = true := by
  simp only [magicLine, magic_format.1, magic_format.2, isAsciiText_append, hn.ascii]
  decide

theorem magicLine_no_nl (n : Name) (hn : IsCodecName n) : '\n' ∉ magicLine n := by
  simp only [magicLine, magic_format.1, magic_format.2]
  intro h
  rcases List.mem_append.1 h with h | h
  · rcases List.mem_append.1 h with h | h
    · simp at h
    · exact hn.no_nl h
  · simp at h

/-- a file that starts with the encoded magic comment: `parse_encoding` returns the name in the comment -/
theorem parseEncoding_magic (parses : Text → Bool) (n : Name) (hn : IsCodecName n) (rest : Bytes) :
    parseEncoding parses (asciiBytes (magicLine n ++ ['\n']) ++ rest) = .ok (some n) := by
  have hrl := readline_asciiLine (magicLine n) rest (magicLine_no_nl n hn)
  have hsb : stripBom (asciiBytes (magicLine n ++ ['\n'])) = none := by
    simp only [magicLine, magic_format.1, List.append_assoc, List.cons_append, asciiBytes, List.map_cons]
    exact stripBom_hash _
  simp only [parseEncoding, hrl, hsb, Option.isSome_none, Option.getD_none,
    asciiIgnore_asciiBytes _ (magicLine_ascii n hn), pyMagicMatch_magicLine n hn]
  rfl

/-! ### `repr` adds only ASCII characters -/

theorem hexDigit_ascii (k : Nat) (h : k < 16) : isAsciiChar (hexDigit k) = true := by
  have : ∀ k, k < 16 → isAsciiChar (hexDigit k) = true := by decide
  exact this k h

theorem hexN_ascii (w n : Nat) : ∀ ch ∈ hexN w n, isAsciiChar ch = true := by
  induction w generalizing n with
  | zero => simp [hexN]
  | succ w ih =>
    intro ch hm
    simp only [hexN, List.mem_append, List.mem_singleton] at hm
    rcases hm with hm | rfl
    · exact ih _ ch hm
    · exact hexDigit_ascii _ (Nat.mod_lt _ (by decide))

theorem reprChar_chars (np : Char → Bool) (q c : Char) :
    ∀ ch ∈ reprChar np q c, isAsciiChar ch = true ∨ ch = c := by
  intro ch hm
  unfold reprChar at hm
  have hex : ∀ w (pre : Char), isAsciiChar pre = true → ch ∈ '\\' :: pre :: hexN w c.toNat → isAsciiChar ch = true := by
    intro w pre hp h
    simp only [List.mem_cons] at h
    rcases h with rfl | rfl | h
    · decide
    · exact hp
    · exact hexN_ascii _ _ _ h
  repeat' split at hm
  all_goals first
    | (simp only [List.mem_cons, List.not_mem_nil, or_false] at hm
       rcases hm with rfl | rfl
       · left; decide
       · first | (left; decide) | (right; rfl))
    | (left; exact hex _ _ (by decide) hm)
    | (simp only [List.mem_singleton] at hm; right; exact hm)

theorem pyRepr_chars (np : Char → Bool) (s : Text) : ∀ ch ∈ pyRepr np s, isAsciiChar ch = true ∨ ch ∈ s := by
  intro ch hm
  unfold pyRepr at hm
  simp only [List.mem_cons, List.mem_append, List.mem_flatMap, List.not_mem_nil, or_false] at hm
  have hquote : isAsciiChar (if s.contains '\'' ∧ ¬ s.contains '"' then '"' else '\'') = true := by
    split <;> decide
  rcases hm with (rfl | ⟨a, ha, hch⟩) | rfl
  · exact Or.inl hquote
  · rcases reprChar_chars np _ a ch hch with h | rfl
    · exact Or.inl h
    · exact Or.inr ha
  · exact Or.inl hquote

/-- `ascii()` produces ASCII only -/
theorem reprChar_ascii (q c : Char) (hq : isAsciiChar q = true) :
    ∀ ch ∈ reprChar (fun _ => true) q c, isAsciiChar ch = true := by
  intro ch hm
  unfold reprChar at hm
  have hex : ∀ w (pre : Char), isAsciiChar pre = true → ch ∈ '\\' :: pre :: hexN w c.toNat → isAsciiChar ch = true := by
    intro w pre hp h
    simp only [List.mem_cons] at h
    rcases h with rfl | rfl | h
    · decide
    · exact hp
    · exact hexN_ascii _ _ _ h
  have two : ∀ a b : Char, isAsciiChar a = true → isAsciiChar b = true → ch ∈ [a, b] → isAsciiChar ch = true := by
    intro a b ha hb h
    simp only [List.mem_cons, List.not_mem_nil, or_false] at h
    rcases h with rfl | rfl <;> assumption
  split at hm
  · rename_i hc
    refine two _ _ (by decide) ?_ hm
    rcases hc with rfl | rfl
    · exact hq
    · decide
  · split at hm
    · exact two _ _ (by decide) (by decide) hm
    · split at hm
      · exact two _ _ (by decide) (by decide) hm
      · split at hm
        · exact two _ _ (by decide) (by decide) hm
        · split at hm
          · exact hex _ _ (by decide) hm
          · split at hm
            · rename_i hlt
              simp only [List.mem_singleton] at hm
              subst hm
              simp [isAsciiChar]; omega
            · simp only [if_true] at hm
              split at hm
              · exact hex _ _ (by decide) hm
              · split at hm
                · exact hex _ _ (by decide) hm
                · exact hex _ _ (by decide) hm

theorem pyAscii_chars (s : Text) : ∀ ch ∈ pyAscii s, isAsciiChar ch = true := by
  intro ch hm
  unfold pyAscii pyRepr at hm
  simp only [List.mem_cons, List.mem_append, List.mem_flatMap, List.not_mem_nil, or_false] at hm
  have hquote : isAsciiChar (if s.contains '\'' ∧ ¬ s.contains '"' then '"' else '\'') = true := by
    split <;> decide
  rcases hm with (rfl | ⟨a, _, hch⟩) | rfl
  · exact hquote
  · exact reprChar_ascii _ a hquote ch hch
  · exact hquote

/-! ### the module text is encodable when its payload is -/

theorem Piece.render_chars (np : Char → Bool) (p : Piece) (hw : p.wellFormed = true) :
    ∀ ch ∈ p.render np, isAsciiChar ch = true ∨ ch ∈ p.payload := by
  intro ch hm
  cases p with
  | scaffold s =>
    left
    simp only [Piece.wellFormed, isAsciiText, List.all_eq_true] at hw
    exact hw ch hm
  | reprOf s => exact pyRepr_chars np s ch hm
  | code s => exact Or.inr hm
  | nameOf s =>
    left
    simp only [Piece.render, names_written_ascii, if_true] at hm
    exact pyAscii_chars s ch hm

theorem joinNames_ascii (sep : Text) (hs : isAsciiText sep = true) (l : List Name)
    (hl : ∀ n ∈ l, isAsciiText n = true) : isAsciiText (joinNames sep l) = true := by
  induction l with
  | nil => rfl
  | cons a l ih =>
    cases l with
    | nil => simpa [joinNames] using hl a (by simp)
    | cons b r =>
      have h1 := hl a (by simp)
      have h2 := ih (fun n hn => hl n (by simp [hn]))
      simp only [joinNames, isAsciiText_append, h1, hs, Bool.and_true, Bool.true_and]
      exact h2

theorem futureLine_ascii (future : List Name) (hf : ∀ n ∈ future, isAsciiText n = true) :
    isAsciiText (futureLine future) = true := by
  cases future with
  | nil => rfl
  | cons a l =>
    simp only [futureLine, isAsciiText_append, future_format_ascii.1,
      joinNames_ascii _ future_format_ascii.2 (a :: l) hf, Bool.true_and]
    decide

theorem moduleText_magic (np : Char → Bool) (n : Name) (hn : IsCodecName n) (future : List Name) (body : List Piece) :
    moduleText np (some n) true future body =
      (magicLine n ++ ['\n']) ++ (futureLine future ++ body.flatMap (Piece.render np)) := by
  obtain ⟨c, cs, rfl⟩ := List.exists_cons_of_ne_nil hn.1
  simp [moduleText, magic_comment_first]

theorem moduleText_chars (np : Char → Bool) (n : Name) (hn : IsCodecName n) (future : List Name)
    (hf : ∀ m ∈ future, isAsciiText m = true) (body : List Piece)
    (hw : ∀ p ∈ body, p.wellFormed = true) :
    ∀ ch ∈ moduleText np (some n) true future body, isAsciiChar ch = true ∨ ∃ p ∈ body, ch ∈ p.payload := by
  intro ch hm
  rw [moduleText_magic np n hn] at hm
  simp only [List.mem_append, List.mem_flatMap] at hm
  have asc : ∀ l : Text, isAsciiText l = true → ch ∈ l → isAsciiChar ch = true := by
    intro l hl h
    simp only [isAsciiText, List.all_eq_true] at hl
    exact hl ch h
  rcases hm with hm | hm | ⟨p, hp, hch⟩
  · exact Or.inl (asc _ (magicLine_ascii _ hn) (by simpa using hm))
  · exact Or.inl (asc _ (futureLine_ascii future hf) hm)
  · rcases Piece.render_chars np p (hw p hp) ch hch with h | h
    · exact Or.inl h
    · exact Or.inr ⟨p, hp, h⟩

end MakoModel.Encoding
