import MakoModel.Encoding.Model
/-! Helper lemmas for C18 (lists, `encAll`, the UTF-8 decoder on an ASCII prefix, the coding regex on a decisive line). -/
namespace MakoModel.Encoding
open MakoModel.Basic

/-! ### lists -/

theorem dropWhile_append_stop {α} (p : α → Bool) (l : List α) (x : α) (r : List α) (hx : p x = false) :
    (l ++ x :: r).dropWhile p = if l.all p then x :: r else l.dropWhile p ++ x :: r := by
  induction l with
  | nil => simp [hx]
  | cons a l ih =>
    by_cases ha : p a = true
    · simp [List.dropWhile, ha, ih]
    · simp [List.dropWhile, ha]

theorem dropWhile_append_not_all {α} (p : α → Bool) (l y : List α) (h : l.all p = false) :
    (l ++ y).dropWhile p = l.dropWhile p ++ y := by
  induction l with
  | nil => simp at h
  | cons a l ih =>
    by_cases ha : p a = true
    · simp [List.all, ha] at h
      simp only [List.cons_append, List.dropWhile, ha]
      exact ih (by simpa using h)
    · simp [List.dropWhile, ha]

theorem takeWhile_append_stop {α} (p : α → Bool) (l : List α) (x : α) (r : List α) (hx : p x = false) :
    (l ++ x :: r).takeWhile p = l.takeWhile p := by
  induction l with
  | nil => simp [List.takeWhile, hx]
  | cons a l ih =>
    by_cases ha : p a = true
    · simp [List.takeWhile, ha, ih]
    · simp [List.takeWhile, ha]

theorem dropWhile_all {α} (p : α → Bool) (l : List α) (h : l.all p = true) : l.dropWhile p = [] := by
  induction l with
  | nil => rfl
  | cons a l ih =>
    simp only [List.all_cons, Bool.and_eq_true] at h
    simp [List.dropWhile, h.1, ih h.2]

theorem takeWhile_all {α} (p : α → Bool) (l : List α) (h : l.all p = true) : l.takeWhile p = l := by
  induction l with
  | nil => rfl
  | cons a l ih =>
    simp only [List.all_cons, Bool.and_eq_true] at h
    simp [List.takeWhile, h.1, ih h.2]

theorem mem_dropWhile {α} (p : α → Bool) (l : List α) (x : α) (h : x ∈ l.dropWhile p) : x ∈ l :=
  (List.dropWhile_sublist p).subset h

theorem dropWhile_ne_nil_of_not_all {α} (p : α → Bool) (l : List α) (h : l.all p = false) : l.dropWhile p ≠ [] := by
  induction l with
  | nil => simp at h
  | cons a l ih =>
    by_cases ha : p a = true
    · simp [List.all, ha] at h
      simp only [List.dropWhile, ha]
      exact ih (by simpa using h)
    · simp [List.dropWhile, ha]

/-! ### `encAll` -/

theorem encAll_append (f : Char → Option Bytes) (a b : Text) :
    encAll f (a ++ b) = (match encAll f a, encAll f b with
                         | some x, some y => some (x ++ y)
                         | _, _ => none) := by
  induction a with
  | nil => cases h : encAll f b <;> simp [encAll, h]
  | cons c a ih =>
    simp only [List.cons_append, encAll, ih]
    cases f c <;> cases encAll f a <;> cases encAll f b <;> simp

theorem encAll_ascii (f : Char → Option Bytes) (hf : ∀ ch, isAsciiChar ch = true → f ch = some [ch.toNat])
    (h : Text) (hh : isAsciiText h = true) : encAll f h = some (asciiBytes h) := by
  induction h with
  | nil => rfl
  | cons c h ih =>
    simp only [isAsciiText, List.all_cons, Bool.and_eq_true] at hh
    simp [encAll, hf c hh.1, ih (by simpa [isAsciiText] using hh.2), asciiBytes]

theorem encAll_isSome (f : Char → Option Bytes) (t : Text) :
    (encAll f t).isSome = true ↔ ∀ ch ∈ t, (f ch).isSome = true := by
  induction t with
  | nil => simp [encAll]
  | cons c t ih =>
    simp only [encAll, List.mem_cons, forall_eq_or_imp]
    cases hc : f c <;> cases ht : encAll f t <;> simp_all

theorem asciiPrefix_of_charwise (c : Codec) (f : Char → Option Bytes) (hc : Charwise c f)
    (hf : ∀ ch, isAsciiChar ch = true → f ch = some [ch.toNat]) : AsciiPrefix c := by
  refine ⟨by rw [hc]; rfl, ?_⟩
  intro h r hh
  rw [hc, hc, encAll_append, encAll_ascii f hf h hh]
  cases encAll f r <;> simp

theorem asciiPrefix_of_asciiCompatible (c : Codec) (h : AsciiCompatible c) : AsciiPrefix c := by
  obtain ⟨f, hc, hf, _⟩ := h
  exact asciiPrefix_of_charwise c f hc hf

/-- what `AsciiPrefix` gives for a concrete encoding result -/
theorem AsciiPrefix.split {c : Codec} (hA : AsciiPrefix c) {h r : Text} {b : Bytes} (hh : isAsciiText h = true)
    (he : c.enc (h ++ r) = some b) : ∃ b', c.enc r = some b' ∧ b = asciiBytes h ++ b' := by
  rw [hA.2 h r hh] at he
  cases hr : c.enc r with
  | none => simp [hr] at he
  | some b' => exact ⟨b', rfl, by simpa [hr] using he.symm⟩

/-! ### characters -/

theorem char_ofNat_toNat (c : Char) : Char.ofNat c.toNat = c := Char.ofNat_toNat c

theorem isAsciiText_append (a b : Text) : isAsciiText (a ++ b) = (isAsciiText a && isAsciiText b) := by
  simp [isAsciiText]

theorem asciiBytes_append (a b : Text) : asciiBytes (a ++ b) = asciiBytes a ++ asciiBytes b := by
  simp [asciiBytes]

theorem nl_not_name : isNameChar '\n' = false := by decide +kernel
theorem colon_not_name : isNameChar ':' = false := by decide +kernel
theorem eq_not_name : isNameChar '=' = false := by decide +kernel
theorem space_not_name : isNameChar ' ' = false := by decide +kernel
theorem tab_not_name : isNameChar '\t' = false := by decide +kernel

/-! ### the UTF-8 decoder (errors="ignore") on an ASCII prefix -/

theorem classify_ascii (b : Nat) (h : b < 128) : classify b = .ascii := by
  simp [classify, h]

theorem utf8Ignore_ascii_append (h : Text) (hh : isAsciiText h = true) (x : Bytes) :
    utf8Ignore (asciiBytes h ++ x) = h ++ utf8Ignore x := by
  induction h with
  | nil => rfl
  | cons c h ih =>
    simp only [isAsciiText, List.all_cons, Bool.and_eq_true] at hh
    have hc : c.toNat < 128 := by simpa [isAsciiChar] using hh.1
    have := ih (by simpa [isAsciiText] using hh.2)
    simp only [utf8Ignore] at this ⊢
    simp [asciiBytes, utf8IgnoreGo, classify_ascii _ hc]
    simpa [asciiBytes] using this

/-! ### `startsCoding` -/

def codingLit : Text := ['c', 'o', 'd', 'i', 'n', 'g']

theorem startsCoding_eq_some (s r : Text) :
    startsCoding s = some r ↔ ∃ x, (x = ':' ∨ x = '=') ∧ s = codingLit ++ x :: r := by
  constructor
  · intro h
    unfold startsCoding at h
    split at h
    · rename_i a b c d e f x r'
      split at h
      · rename_i hc
        obtain ⟨rfl, rfl, rfl, rfl, rfl, rfl, hx⟩ := hc
        simp only [Option.some.injEq] at h
        subst h
        exact ⟨x, hx, rfl⟩
      · simp at h
    · simp at h
  · rintro ⟨x, hx, rfl⟩
    simp [startsCoding, codingLit, hx]

theorem startsCoding_append_some (s y r : Text) (h : startsCoding s = some r) : startsCoding (s ++ y) = some (r ++ y) := by
  obtain ⟨x, hx, rfl⟩ := (startsCoding_eq_some s r).1 h
  exact (startsCoding_eq_some _ _).2 ⟨x, hx, by simp [codingLit]⟩

/-- a newline right after `s` cannot complete a `coding[:=]` that `s` does not already contain -/
theorem startsCoding_append_nl_none (s rest : Text) (h : startsCoding s = none) :
    startsCoding (s ++ '\n' :: rest) = none := by
  cases h' : startsCoding (s ++ '\n' :: rest) with
  | none => rfl
  | some r' =>
    exfalso
    obtain ⟨x, hx, he⟩ := (startsCoding_eq_some _ _).1 h'
    have he' : s ++ '\n' :: rest = (codingLit ++ [x]) ++ r' := by simpa using he
    rcases List.append_eq_append_iff.1 he' with ⟨a', h1, h2⟩ | ⟨c', h1, _⟩
    · cases a' with
      | nil =>
        have : startsCoding s = some [] := (startsCoding_eq_some _ _).2 ⟨x, hx, by simpa using h1.symm⟩
        simp [h] at this
      | cons d a'' =>
        simp only [List.cons_append, List.cons.injEq] at h2
        obtain ⟨rfl, _⟩ := h2
        have hm : '\n' ∈ codingLit ++ [x] := by rw [h1]; simp
        rcases hx with rfl | rfl <;> simp [codingLit] at hm
    · have : startsCoding s = some c' := (startsCoding_eq_some _ _).2 ⟨x, hx, by simpa using h1⟩
      simp [h] at this

theorem startsCoding_of_ne_c (a : Char) (s : Text) (h : a ≠ 'c') : startsCoding (a :: s) = none := by
  cases h' : startsCoding (a :: s) with
  | none => rfl
  | some r =>
    obtain ⟨x, _, he⟩ := (startsCoding_eq_some _ _).1 h'
    simp [codingLit] at he
    exact absurd he.1 h

theorem startsCoding_some_sep (s r : Text) (h : startsCoding s = some r) : ':' ∈ s ∨ '=' ∈ s := by
  obtain ⟨x, hx, rfl⟩ := (startsCoding_eq_some s r).1 h
  rcases hx with rfl | rfl <;> simp

/-! ### the coding regex on a text whose first line is decisive -/

theorem dropLine_append_nl (d r : Text) (hd : '\n' ∉ d) : dropLine (d ++ '\n' :: r) = some r := by
  induction d with
  | nil => simp [dropLine]
  | cons a d ih =>
    simp only [List.mem_cons, not_or] at hd
    have : a ≠ '\n' := fun h => hd.1 h.symm
    simp [dropLine, this, ih hd.2]

theorem codingTail_line (tail r : Text) (hnl : '\n' ∉ tail) (hns : tail.all isSpace = false) :
    codingTail (tail ++ '\n' :: r) = (lineTail tail).map fun n => (n, r) := by
  have h1 : (tail ++ '\n' :: r).dropWhile isSpace = tail.dropWhile isSpace ++ '\n' :: r :=
    dropWhile_append_not_all _ _ _ hns
  have hnl' : '\n' ∉ (tail.dropWhile isSpace).dropWhile isNameChar := fun h =>
    hnl (mem_dropWhile _ _ _ (mem_dropWhile _ _ _ h))
  simp only [codingTail, lineTail, h1, takeWhile_append_stop _ _ _ _ nl_not_name]
  by_cases hn : ((tail.dropWhile isSpace).takeWhile isNameChar).isEmpty = true
  · simp [hn]
  · simp only [hn, Bool.false_eq_true, if_false]
    rw [dropWhile_append_stop _ _ _ _ nl_not_name]
    split
    · simp [dropLine]
    · simp [dropLine_append_nl _ _ hnl']

theorem codingScan_line (s r : Text) (hnl : '\n' ∉ s) (hro : ranOff s = false) :
    codingScan (s ++ '\n' :: r) = (lineScan s).map fun n => (n, r) := by
  induction s with
  | nil => simp [codingScan, lineScan]
  | cons c cs ih =>
    simp only [List.mem_cons, not_or] at hnl
    have hc : c ≠ '\n' := fun h => hnl.1 h.symm
    simp only [ranOff, Bool.or_eq_false_iff] at hro
    have ih' := ih hnl.2 hro.2
    simp only [List.cons_append, codingScan, hc, if_false, ih', lineScan]
    cases hl : lineScan cs with
    | some n => simp
    | none =>
      simp only [Option.map_none]
      cases hs : startsCoding (c :: cs) with
      | none =>
        have := startsCoding_append_nl_none (c :: cs) r hs
        simp only [List.cons_append] at this
        simp [this]
      | some tail =>
        have h2 := startsCoding_append_some (c :: cs) ('\n' :: r) tail hs
        simp only [List.cons_append] at h2
        have hro1 := hro.1
        simp only [hs] at hro1
        have htnl : '\n' ∉ tail := by
          obtain ⟨x, _, he⟩ := (startsCoding_eq_some _ _).1 hs
          intro hm
          have : '\n' ∈ c :: cs := by rw [he]; simp [hm]
          simp only [List.mem_cons] at this
          rcases this with h | h
          · exact hc h.symm
          · exact hnl.2 h
        simp [h2, codingTail_line tail r htnl hro1]

theorem codingMatch_line (L r : Text) (hnl : '\n' ∉ L) (hro : ranOff L = false) :
    codingMatch (L ++ '\n' :: r) = (lineName L).map fun n => (n, r) := by
  cases L with
  | nil => simp [codingMatch, lineName]
  | cons c cs =>
    by_cases hc : c = '#'
    · subst hc
      simp only [List.mem_cons, not_or] at hnl
      simp only [ranOff, Bool.or_eq_false_iff] at hro
      simpa [codingMatch, lineName] using codingScan_line cs r hnl.2 hro.2
    · have h1 : codingMatch (c :: (cs ++ '\n' :: r)) = none := by
        unfold codingMatch
        split
        · rename_i h; simp at h; exact absurd h.1 hc
        · rfl
      have h2 : lineName (c :: cs) = none := by
        unfold lineName
        split
        · rename_i h; simp at h; exact absurd h.1 hc
        · rfl
      simp [h1, h2]

theorem codingName_line (L r : Text) (h : DecisiveLine L) : codingName (L ++ '\n' :: r) = lineName L := by
  simp [codingName, codingMatch_line L r h.2.1 h.2.2, Option.map_map, Function.comp_def]

theorem codingSkip_line (L r : Text) (h : DecisiveLine L) :
    codingSkip (L ++ '\n' :: r) = if (lineName L).isSome then L.length + 1 else 0 := by
  simp only [codingSkip, codingMatch_line L r h.2.1 h.2.2]
  cases lineName L with
  | none => simp
  | some n => simp; omega

/-- bytes that start with an encoded decisive line: the comment `decode_raw_stream` finds in the bytes
    is the one on the line -/
theorem sniff_line (L : Text) (x : Bytes) (h : DecisiveLine L) :
    sniff (asciiBytes (L ++ ['\n']) ++ x) = lineName L := by
  have hasc : isAsciiText (L ++ ['\n']) = true := by
    rw [isAsciiText_append, h.1]; decide
  rw [sniff, utf8Ignore_ascii_append _ hasc]
  simpa using codingName_line L (utf8Ignore x) h

end MakoModel.Encoding
