import MakoModel.Paths8.Model
import MakoModel.Path.Idem
/-! Helper lemmas for the C08 theorems (association lists, declaration blocks, registry, kwargs). -/
namespace MakoModel.Paths8

/-! ## association lists -/

theorem get_cons {β} (k' : Name) (v : β) (r : List (Name × β)) (k : Name) :
    get ((k', v) :: r) k = if k' = k then some v else get r k := rfl

theorem get_append {β} (a b : List (Name × β)) (k : Name) :
    get (a ++ b) k = match get a k with | some v => some v | none => get b k := by
  induction a with
  | nil => rfl
  | cons p r ih =>
    obtain ⟨k', v⟩ := p
    simp only [List.cons_append, get_cons]
    by_cases h : k' = k <;> simp [h, ih]

theorem get_eq_none_of_not_mem {β} (a : List (Name × β)) (k : Name) (h : k ∉ keys a) : get a k = none := by
  induction a with
  | nil => rfl
  | cons p r ih =>
    obtain ⟨k', v⟩ := p
    simp only [keys, List.map_cons, List.mem_cons, not_or] at h
    have h1 : ¬ k' = k := fun e => h.1 e.symm
    simp only [get_cons, h1, if_false]
    exact ih h.2

theorem get_isSome_iff_mem {β} (a : List (Name × β)) (k : Name) : (get a k).isSome ↔ k ∈ keys a := by
  induction a with
  | nil => simp [get, keys]
  | cons p r ih =>
    obtain ⟨k', v⟩ := p
    simp only [get_cons, keys, List.map_cons, List.mem_cons]
    by_cases h : k' = k
    · simp [h]
    · have h' : ¬ k = k' := fun e => h e.symm
      simp only [h, if_false, h', false_or]
      exact ih

/-- a dict read does not depend on the order of the items when the keys are distinct -/
theorem get_perm {β} {a b : List (Name × β)} (hp : a.Perm b) (hn : (keys a).Nodup) (k : Name) : get a k = get b k := by
  induction hp with
  | nil => rfl
  | cons x _ ih =>
    obtain ⟨k', v⟩ := x
    simp only [keys, List.map_cons, List.nodup_cons] at hn
    simp only [get_cons]
    by_cases h : k' = k
    · simp [h]
    · simp only [h, if_false]; exact ih hn.2
  | swap x y l =>
    obtain ⟨kx, vx⟩ := x
    obtain ⟨ky, vy⟩ := y
    simp only [keys, List.map_cons, List.nodup_cons, List.mem_cons, not_or] at hn
    simp only [get_cons]
    by_cases h1 : kx = k <;> by_cases h2 : ky = k
    · exact absurd (h2.trans h1.symm) hn.1.1
    · simp [h1, h2]
    · simp [h1, h2]
    · simp [h1, h2]
  | trans h1 _ ih1 ih2 =>
    refine (ih1 hn).trans (ih2 ?_)
    unfold keys at hn ⊢
    exact (h1.map _).nodup_iff.mp hn

theorem get_dset {β} (d : List (Name × β)) (k : Name) (v : β) (k' : Name) :
    get (dset d k v) k' = if k = k' then some v else get d k' := by
  induction d with
  | nil => simp [dset, get]
  | cons p r ih =>
    obtain ⟨k0, v0⟩ := p
    simp only [dset]
    by_cases h : k0 = k
    · subst h
      simp only [if_true, get_cons]
      by_cases h2 : k0 = k' <;> simp [h2]
    · simp only [h, if_false, get_cons, ih]
      by_cases h2 : k0 = k'
      · subst h2
        have : ¬ k = k0 := fun e => h e.symm
        simp [this]
      · simp [h2]

/-- `d.update(items)` read back: the last item with the key wins, else the old value -/
theorem get_dupdate {β} (d items : List (Name × β)) (k : Name) :
    get (dupdate d items) k = match get items.reverse k with | some v => some v | none => get d k := by
  unfold dupdate
  induction items generalizing d with
  | nil => simp [get]
  | cons p r ih =>
    obtain ⟨k0, v0⟩ := p
    simp only [List.foldl_cons, List.reverse_cons]
    rw [ih, get_append, get_dset]
    cases hr : get r.reverse k with
    | some v => simp
    | none =>
      simp only [get_cons]
      by_cases h : k0 = k <;> simp [h, get]

theorem keys_reverse {β} (a : List (Name × β)) : keys a.reverse = (keys a).reverse := by
  simp [keys, List.map_reverse]

/-! ## declaration blocks -/

/-- once a declaration has succeeded, the failure status of every declaration is what it was before -/
theorem fails_after_ok (s : Src) (g : Bool) (d : Decl) (h : d.fails s g = false) :
    Decl.fails s (g || d.isNsFetch) = Decl.fails s g := by
  funext d'
  cases d' <;> try rfl
  -- d' = nsFetch
  cases d <;> simp_all [Decl.fails, Decl.isNsFetch]

/-- closed form of `execDecls`: the first failing declaration raises; otherwise every declaration is bound -/
theorem execDecls_eq (s : Src) (ds : List Decl) (env : Env) (g : Bool) :
    execDecls s ds env g =
      match ds.find? (Decl.fails s g) with
      | some d => .error d.exc
      | none => .ok ((ds.map fun d => (d.target, d.val s)).reverse ++ env, g || ds.any Decl.isNsFetch) := by
  induction ds generalizing env g with
  | nil => simp [execDecls]
  | cons d ds ih =>
    simp only [execDecls, evalDecl]
    by_cases hf : d.fails s g = true
    · simp [hf]
    · have hf' : d.fails s g = false := by simpa using hf
      simp only [hf', Bool.false_eq_true, if_false, List.find?_cons]
      rw [ih, fails_after_ok s g d hf']
      cases ds.find? (Decl.fails s g) with
      | some d' => rfl
      | none => simp [Bool.or_assoc]

theorem find_fails_none_iff (s : Src) (g : Bool) (ds : List Decl) :
    ds.find? (Decl.fails s g) = none ↔ possibleExcs s g ds = [] := by
  simp only [possibleExcs, List.map_eq_nil_iff, List.filter_eq_nil_iff, List.find?_eq_none]

theorem find_fails_some (s : Src) (g : Bool) (ds : List Decl) (d : Decl) (h : ds.find? (Decl.fails s g) = some d) :
    (possibleExcs s g ds).head? = some d.exc := by
  induction ds with
  | nil => simp at h
  | cons a r ih =>
    simp only [List.find?_cons] at h
    by_cases hf : a.fails s g = true
    · simp only [hf] at h
      cases h
      simp [possibleExcs, hf]
    · have hf' : a.fails s g = false := by simpa using hf
      simp only [hf'] at h
      simpa [possibleExcs, List.filter_cons, hf'] using ih h

theorem possibleExcs_perm (s : Src) (g : Bool) {ds ds' : List Decl} (hp : ds.Perm ds') :
    (possibleExcs s g ds).Perm (possibleExcs s g ds') := (hp.filter _).map _

theorem any_perm {α} (p : α → Bool) {a b : List α} (hp : a.Perm b) : a.any p = b.any p := by
  induction hp with
  | nil => rfl
  | cons x _ ih => simp [ih]
  | swap x y l => simp only [List.any_cons]; cases p x <;> cases p y <;> simp
  | trans _ _ ih1 ih2 => exact ih1.trans ih2

/-- the outcome of a block: raised exception, or the bound environment -/
theorem execDecls_ok_iff (s : Src) (ds : List Decl) (env : Env) (g : Bool) :
    (∃ r, execDecls s ds env g = .ok r) ↔ possibleExcs s g ds = [] := by
  rw [execDecls_eq, ← find_fails_none_iff]
  cases ds.find? (Decl.fails s g) <;> simp

theorem keys_bound (s : Src) (ds : List Decl) : keys (ds.map fun d => (d.target, d.val s)) = ds.map Decl.target := by
  simp [keys, List.map_map, Function.comp_def]

theorem declOf_target (c : GenCfg) (i : Idents) (x : Name) : (declOf c i x).target = x := by
  unfold declOf
  split
  · rfl
  · split
    · rfl
    · split <;> split <;> rfl

theorem declBlock_targets (c : GenCfg) (i : Idents) (o : List Name) : (declBlock c i o).map Decl.target = o := by
  induction o with
  | nil => rfl
  | cons x r ih =>
    simp only [declBlock, List.map_cons] at ih ⊢
    rw [ih, declOf_target]

/-! ## registry -/

theorem get_filter_not_keys {β} (r : List (Name × β)) (ks : List Name) (k : Name) (h : k ∉ ks) :
    get (r.filter (fun e => !ks.contains e.1)) k = get r k := by
  induction r with
  | nil => rfl
  | cons p l ih =>
    obtain ⟨k0, v0⟩ := p
    simp only [List.filter_cons]
    by_cases hc : ks.contains k0 = true
    · have hne : ¬ k0 = k := by
        intro e; subst e; exact h (List.contains_iff_mem.mp hc)
      simp only [hc, Bool.not_true, Bool.false_eq_true, if_false, get_cons, hne]
      exact ih
    · have hc' : ks.contains k0 = false := by simpa using hc
      simp only [hc', Bool.not_false, if_true, get_cons, ih]

theorem get_register (r : Registry) (t : Tmpl) (k : Str) :
    get (register r t) k = if k ∈ t.keys then some t.info else get r k := by
  unfold register
  rw [get_append]
  by_cases h : k ∈ t.keys
  · have : get (t.keys.map fun k => (k, t.info)) k = some t.info := by
      generalize t.keys = ks at h
      induction ks with
      | nil => simp at h
      | cons a l ih =>
        simp only [List.map_cons, get_cons]
        by_cases e : a = k
        · simp [e]
        · simp only [e, if_false]
          rcases List.mem_cons.mp h with h | h
          · exact absurd h.symm e
          · exact ih h
    simp [this, h]
  · have : get (t.keys.map fun k => (k, t.info)) k = none := by
      apply get_eq_none_of_not_mem
      simpa [keys, List.map_map, Function.comp_def] using h
    rw [this, get_filter_not_keys _ _ _ h]
    simp [h]

/-- reading a key after registering `ts` on top of `r`: the last template writing the key wins -/
theorem get_foldl_register (ts : List Tmpl) (r : Registry) (k : Str) :
    get (ts.foldl register r) k =
      match ts.reverse.find? (fun t => decide (k ∈ t.keys)) with
      | some t => some t.info
      | none => get r k := by
  induction ts generalizing r with
  | nil => simp
  | cons a l ih =>
    simp only [List.foldl_cons, List.reverse_cons, List.find?_append]
    rw [ih]
    cases l.reverse.find? (fun t => decide (k ∈ t.keys)) with
    | some t => simp
    | none =>
      simp only [Option.none_or, List.find?_cons, List.find?_nil, get_register]
      by_cases h : k ∈ a.keys <;> simp [h]

theorem get_foldl_register_of_not_key (ts : List Tmpl) (r : Registry) (k : Str) (h : ∀ t ∈ ts, k ∉ t.keys) :
    get (ts.foldl register r) k = get r k := by
  rw [get_foldl_register]
  have : ts.reverse.find? (fun t => decide (k ∈ t.keys)) = none := by
    simp only [List.find?_eq_none, List.mem_reverse, decide_eq_true_eq]
    exact h
  simp [this]

theorem modName_mem_keys (t : Tmpl) : t.modName ∈ t.keys := by simp [Tmpl.keys]

/-- general form (any initial registry) of `registry_injective_partial` -/
theorem own_of_pairwise (ts : List Tmpl) (r : Registry)
    (h : ts.Pairwise (fun a b => a.modName ∉ b.keys)) :
    ∀ t ∈ ts, get (ts.foldl register r) t.modName = some t.info := by
  induction ts generalizing r with
  | nil => simp
  | cons a l ih =>
    rw [List.pairwise_cons] at h
    intro t ht
    simp only [List.foldl_cons]
    rcases List.mem_cons.mp ht with e | ht
    · subst e
      rw [get_foldl_register_of_not_key l _ _ h.1, get_register]
      simp [modName_mem_keys]
    · exact ih _ h.2 t ht

/-- general form of the converse: if every template reads back its own info and the templates are distinct
objects, no later registration wrote an earlier template's key -/
theorem pairwise_of_own (ts : List Tmpl) (r : Registry) (hid : (ts.map (·.id)).Nodup)
    (h : ∀ t ∈ ts, get (ts.foldl register r) t.modName = some t.info) :
    ts.Pairwise (fun a b => a.modName ∉ b.keys) := by
  induction ts generalizing r with
  | nil => exact List.Pairwise.nil
  | cons a l ih =>
    simp only [List.map_cons, List.nodup_cons] at hid
    rw [List.pairwise_cons]
    constructor
    · intro b hb hk
      have ha := h a (List.mem_cons_self ..)
      simp only [List.foldl_cons] at ha
      rw [get_foldl_register] at ha
      cases hf : l.reverse.find? (fun t => decide (a.modName ∈ t.keys)) with
      | none =>
        have := List.find?_eq_none.mp hf b (List.mem_reverse.mpr hb)
        simp [hk] at this
      | some c =>
        rw [hf] at ha
        have hc : c ∈ l := List.mem_reverse.mp (List.mem_of_find?_eq_some hf)
        have hidc : c.id = a.id := by
          have := Option.some.inj ha
          simpa [Tmpl.info] using congrArg Info.owner this
        exact hid.1 (List.mem_map.mpr ⟨c, hc, hidc⟩)
    · apply ih (register r a) hid.2
      intro t ht
      have := h t (List.mem_cons_of_mem _ ht)
      simpa only [List.foldl_cons] using this

/-! ## kwargs -/

theorem get_snoc {β} (kw : List (Name × β)) (a : Name) (v : β) (k : Name) :
    get (kw ++ [(a, v)]) k = match get kw k with | some w => some w | none => if a = k then some v else none := by
  rw [get_append]
  cases get kw k <;> simp [get]

/-- loop invariant of `_kwargs_for_callable` -/
theorem get_kwargsLoop {β} (data : List (Name × β)) (l : List Name) (kw : List (Name × β)) (k : Name) :
    get (kwargsLoop data l kw) k =
      match get kw k with
      | some w => some w
      | none => if k ∈ l ∧ k ≠ contextName then get data k else none := by
  induction l generalizing kw with
  | nil => cases h : get kw k <;> simp [kwargsLoop, h]
  | cons a r ih =>
    cases hd : get data a with
    | none =>
      have hstep : kwargsLoop data (a :: r) kw = kwargsLoop data r kw := by simp [kwargsLoop, hd]
      rw [hstep, ih]
      cases hk : get kw k with
      | some w => rfl
      | none =>
        by_cases e : k = a
        · subst e; simp [hd]
        · simp [e]
    | some v =>
      by_cases hc : a ≠ contextName ∧ (get kw a).isNone = true
      · have hstep : kwargsLoop data (a :: r) kw = kwargsLoop data r (kw ++ [(a, v)]) := by
          simp only [kwargsLoop, hd]; rw [if_pos hc]
        rw [hstep, ih, get_snoc]
        cases hk : get kw k with
        | some w => rfl
        | none =>
          by_cases e : a = k
          · subst e; simp [hd, hc.1]
          · have e' : ¬ k = a := fun x => e x.symm
            simp [e, e']
      · have hstep : kwargsLoop data (a :: r) kw = kwargsLoop data r kw := by
          simp only [kwargsLoop, hd]; rw [if_neg hc]
        rw [hstep, ih]
        cases hk : get kw k with
        | some w => rfl
        | none =>
          by_cases e : k = a
          · subst e
            have : k = contextName := by
              by_cases c : k = contextName
              · exact c
              · exact absurd ⟨c, by simp [hk]⟩ hc
            simp [this]
          · simp [e]

/-! ## sorting -/

theorem mem_insertSorted (a b : Str) (l : List Str) : b ∈ insertSorted a l ↔ b = a ∨ b ∈ l := by
  induction l with
  | nil => simp [insertSorted]
  | cons c r ih =>
    simp only [insertSorted]
    split
    · simp
    · simp only [List.mem_cons, ih]
      constructor
      · rintro (h | h | h)
        · exact Or.inr (Or.inl h)
        · exact Or.inl h
        · exact Or.inr (Or.inr h)
      · rintro (h | h | h)
        · exact Or.inr (Or.inl h)
        · exact Or.inl h
        · exact Or.inr (Or.inr h)

theorem mem_sortStrs (b : Str) (l : List Str) : b ∈ sortStrs l ↔ b ∈ l := by
  induction l with
  | nil => simp [sortStrs]
  | cons a r ih => simp [sortStrs, mem_insertSorted, ih]

/-! ### `sorted()` is a function of the multiset -/

theorem strLe_total (a b : Str) : strLe a b = true ∨ strLe b a = true := by
  induction a generalizing b with
  | nil => left; rfl
  | cons x r ih =>
    cases b with
    | nil => right; rfl
    | cons y w =>
      simp only [strLe]
      by_cases h1 : x.toNat < y.toNat
      · simp [h1]
      · by_cases h2 : y.toNat < x.toNat
        · simp [h1, h2]
        · simp only [h1, h2, if_false]; exact ih w

theorem strLe_antisymm (a b : Str) (h1 : strLe a b = true) (h2 : strLe b a = true) : a = b := by
  induction a generalizing b with
  | nil => cases b with
    | nil => rfl
    | cons y w => simp [strLe] at h2
  | cons x r ih =>
    cases b with
    | nil => simp [strLe] at h1
    | cons y w =>
      simp only [strLe] at h1 h2
      by_cases l1 : x.toNat < y.toNat
      · have : ¬ y.toNat < x.toNat := by omega
        simp [this, l1] at h2
      · by_cases l2 : y.toNat < x.toNat
        · simp [l1, l2] at h1
        · simp only [l1, l2, if_false] at h1 h2
          have hxy : x = y := by
            apply Char.ext; apply UInt32.toNat_inj.mp
            show x.toNat = y.toNat; omega
          rw [hxy, ih w h1 h2]

theorem strLe_trans (a b c : Str) (h1 : strLe a b = true) (h2 : strLe b c = true) : strLe a c = true := by
  induction a generalizing b c with
  | nil => rfl
  | cons x r ih =>
    cases b with
    | nil => simp [strLe] at h1
    | cons y w =>
      cases c with
      | nil => simp [strLe] at h2
      | cons z v =>
        simp only [strLe] at h1 h2 ⊢
        by_cases l1 : x.toNat < y.toNat
        · by_cases m1 : y.toNat < z.toNat
          · have : x.toNat < z.toNat := by omega
            simp [this]
          · by_cases m2 : z.toNat < y.toNat
            · simp [m1, m2] at h2
            · have : x.toNat < z.toNat := by omega
              simp [this]
        · by_cases l2 : y.toNat < x.toNat
          · simp [l1, l2] at h1
          · simp only [l1, l2, if_false] at h1
            by_cases m1 : y.toNat < z.toNat
            · have : x.toNat < z.toNat := by omega
              simp [this]
            · by_cases m2 : z.toNat < y.toNat
              · simp [m1, m2] at h2
              · simp only [m1, m2, if_false] at h2
                have n1 : ¬ x.toNat < z.toNat := by omega
                have n2 : ¬ z.toNat < x.toNat := by omega
                simp only [n1, n2, if_false]
                exact ih w v h1 h2

theorem insertSorted_comm (x y : Str) (s : List Str) :
    insertSorted x (insertSorted y s) = insertSorted y (insertSorted x s) := by
  induction s with
  | nil =>
    simp only [insertSorted]
    by_cases h1 : strLe x y = true <;> by_cases h2 : strLe y x = true
    · rw [strLe_antisymm x y h1 h2]
    · simp [h1, h2]
    · simp [h1, h2]
    · rcases strLe_total x y with h | h
      · exact absurd h h1
      · exact absurd h h2
  | cons c r ih =>
    by_cases hy : strLe y c = true <;> by_cases hx : strLe x c = true
    · simp only [insertSorted, hy, hx, if_true]
      by_cases h1 : strLe x y = true <;> by_cases h2 : strLe y x = true
      · rw [strLe_antisymm x y h1 h2]
      · simp [h1, h2]
      · simp [h1, h2]
      · rcases strLe_total x y with h | h
        · exact absurd h h1
        · exact absurd h h2
    · have hxy : ¬ strLe x y = true := fun h => hx (strLe_trans x y c h hy)
      simp [insertSorted, hy, hx, hxy]
    · have hyx : ¬ strLe y x = true := fun h => hy (strLe_trans y x c h hx)
      simp [insertSorted, hy, hx, hyx]
    · simp [insertSorted, hy, hx, ih]

/-- `sorted(s)` does not depend on the order in which the set `s` is iterated -/
theorem sortStrs_perm {a b : List Str} (hp : a.Perm b) : sortStrs a = sortStrs b := by
  induction hp with
  | nil => rfl
  | cons x _ ih => simp [sortStrs, ih]
  | swap x y l => simp only [sortStrs]; exact insertSorted_comm y x (sortStrs l)
  | trans _ _ ih1 ih2 => exact ih1.trans ih2

theorem perm_insertSorted (a : Str) (l : List Str) : (insertSorted a l).Perm (a :: l) := by
  induction l with
  | nil => exact List.Perm.refl _
  | cons c r ih =>
    simp only [insertSorted]
    split
    · exact List.Perm.refl _
    · exact (List.Perm.cons c ih).trans (List.Perm.swap a c r)

theorem perm_sortStrs (l : List Str) : (sortStrs l).Perm l := by
  induction l with
  | nil => exact List.Perm.refl _
  | cons a r ih => exact (perm_insertSorted a _).trans (List.Perm.cons a ih)

/-! ## `os.path.abspath` -/

theorem normpath_head_slash (p : Str) (h : p.head? = some '/') : (Path.normpath p).head? = some '/' := by
  cases p with
  | nil => simp at h
  | cons c r =>
    have hc : c = '/' := by simpa using h
    subst hc
    have hk : 1 ≤ Path.initialSlashes ('/' :: r) := by
      unfold Path.initialSlashes
      repeat' split
      all_goals first | omega | simp_all
    unfold Path.normpath
    simp only [List.cons_ne_nil, if_false]
    generalize Path.initialSlashes ('/' :: r) = k at hk
    cases k with
    | zero => omega
    | succ n => simp [List.replicate_succ]

theorem joinPath_of_abs (cwd q : Str) (h : q.head? = some '/') : Path.joinPath cwd q = q := by
  simp [Path.joinPath, h]

theorem joinPath_head_slash (cwd p : Str) (h : cwd.head? = some '/') : (Path.joinPath cwd p).head? = some '/' := by
  unfold Path.joinPath
  split
  · assumption
  · cases cwd with
    | nil => simp at h
    | cons c r => split <;> simpa using h

theorem absPath_head (cwd p : Str) (h : cwd.head? = some '/') : (absPath cwd p).head? = some '/' :=
  normpath_head_slash _ (joinPath_head_slash cwd p h)

/-- `abspath` is idempotent (for an absolute working directory) -/
theorem absPath_idem (cwd p : Str) (h : cwd.head? = some '/') : absPath cwd (absPath cwd p) = absPath cwd p := by
  have hj := joinPath_of_abs cwd (absPath cwd p) (absPath_head cwd p h)
  unfold absPath at hj ⊢
  rw [hj, Path.normpath_idem]

end MakoModel.Paths8
