import MakoModel.Basic.Unicode
import MakoModel.Path.Model
import MakoModel.Generated.Paths8
import MakoModel.Generated.ModFile
/-!
# C08 – compilation / rendering paths (area `Paths8`)

Four small models, each a transcription of the code named beside it:

* (a) *declaration blocks* – what `_GenerateRenderMethod.write_variable_declares` (mako/codegen.py) emits at the
  top of every render callable, and its execution (`execDecls`).  The real generator walks the Python **set**
  `to_write`; the model takes the emission order as a parameter (`order : List Name`), any permutation of the set;
  the `__M_locals` snapshot (`__M_dict_builtin(a=a, …)` over the set `argument_declared`, `context._locals`).
* (b) path selection of `Template.__init__` (mako/template.py) and the module preamble written by
  `write_toplevel` on the text path (`_compile_text`) and on the module-file path (`_compile_module_file`).
* (c) the `ModuleInfo._modules` registry, `Template.source` / `Template.code` through it, `module_id`.
* (d) `runtime._kwargs_for_callable`, `has_def` / `list_defs`.

Strings are `List Char`.  `\W` of `re.sub(r"\W", "_", uri)` is the complement of the **regenerated** Unicode table
`Generated.Unicode.wordRanges` (probed from the running interpreter's `re`), through `Basic.isWord`.
-/
namespace MakoModel.Paths8

abbrev Str := List Char
abbrev Name := List Char

/-! ## association lists = Python dicts (insertion ordered) -/

/-- `d[k]` / `d.get(k)` on a list of items; the first item with the key wins -/
def get {β} : List (Name × β) → Name → Option β
  | [], _ => none
  | (k', v) :: r, k => if k' = k then some v else get r k

/-- `d[k] = v`: an existing key keeps its position, a new key is appended -/
def dset {β} : List (Name × β) → Name → β → List (Name × β)
  | [], k, v => [(k, v)]
  | (k', v') :: r, k, v => if k' = k then (k', v) :: r else (k', v') :: dset r k v

/-- `d.update(items)` -/
def dupdate {β} (d : List (Name × β)) (items : List (Name × β)) : List (Name × β) :=
  items.foldl (fun acc kv => dset acc kv.1 kv.2) d

def keys {β} (d : List (Name × β)) : List Name := d.map (·.1)

/-! ## `sorted()` on lists of strings -/

/-- lexicographic order on code points (`str.__le__`) -/
def strLe : Str → Str → Bool
  | [], _ => true
  | _ :: _, [] => false
  | a :: as, b :: bs => if a.toNat < b.toNat then true else if b.toNat < a.toNat then false else strLe as bs

def insertSorted (a : Str) : List Str → List Str
  | [] => [a]
  | b :: r => if strLe a b then a :: b :: r else b :: insertSorted a r

/-- `sorted(attrs)` (insertion sort) -/
def sortStrs : List Str → List Str
  | [] => []
  | a :: r => insertSorted a (sortStrs r)

/-! ## (a) declaration blocks -/

/-- values a declaration can bind -/
inductive Val where
  | undefined                 -- `runtime.UNDEFINED`
  | data (v : Str)            -- something found in the context, `builtins` or `_import_ns`
  | ns (name : Name)          -- `_mako_get_namespace(context, name)`
  | closure (name : Name)     -- `def name(…)`: a stub for a top-level def or an inline def (captures by reference)
deriving DecidableEq, Repr

/-- what a declaration block can read: none of it is written by a declaration -/
structure Src where
  ctx : List (Name × Val)        -- `context._data`
  builtins : List (Name × Val)   -- `builtins.__dict__`
  importNs : List (Name × Val)   -- `_import_ns` (filled before the block by `_populate`)
  nsFails : Bool                 -- `_mako_generate_namespaces(context)` raises (e.g. a namespace file is missing)
deriving Repr

/-- the statement shapes of `write_variable_declares`, each binding the local `x` -/
inductive Decl where
  | defn (x : Name)        -- `def x(…): …`                         (`write_def_decl` / `write_inline_def`)
  | nsFetch (x : Name)     -- `x = _mako_get_namespace(context, 'x')`
  | ctxGet (x : Name)      -- `x = context.get('x', UNDEFINED)`
  | ctxStrict (x : Name)   -- `try: x = context['x']` / `except KeyError: raise NameError("'x' is not defined")`
  | impGet (x : Name)      -- `x = _import_ns.get('x', context.get('x', UNDEFINED))`
  | impStrict (x : Name)   -- `x = _import_ns.get('x', UNDEFINED)`; `if x is UNDEFINED:` strict context lookup
deriving DecidableEq, Repr

def Decl.target : Decl → Name
  | .defn x | .nsFetch x | .ctxGet x | .ctxStrict x | .impGet x | .impStrict x => x

def Decl.isNsFetch : Decl → Bool
  | .nsFetch _ => true
  | _ => false

inductive Exc where
  | nameError (x : Name)     -- `NameError("'x' is not defined")`
  | nsError                  -- whatever `_mako_generate_namespaces` raised
deriving DecidableEq, Repr

/-- `Context.get(key, UNDEFINED)`: `self._data.get(key, builtins.__dict__.get(key, default))` -/
def ctxGetVal (s : Src) (x : Name) : Val :=
  match get s.ctx x with
  | some v => v
  | none => match get s.builtins x with
    | some v => v
    | none => .undefined

/-- `Context.__getitem__`: `_data[key]` if present, else `builtins.__dict__[key]` (KeyError → NameError) -/
def ctxItem (s : Src) (x : Name) : Option Val :=
  match get s.ctx x with
  | some v => some v
  | none => get s.builtins x

/-- the value a declaration binds when it does not raise -/
def Decl.val (s : Src) : Decl → Val
  | .defn x => .closure x
  | .nsFetch x => .ns x
  | .ctxGet x => ctxGetVal s x
  | .ctxStrict x => (ctxItem s x).getD .undefined
  | .impGet x => match get s.importNs x with
    | some v => v
    | none => ctxGetVal s x
  | .impStrict x => match get s.importNs x with
    | some v => if v = .undefined then (ctxItem s x).getD .undefined else v
    | none => (ctxItem s x).getD .undefined

/-- does the declaration raise when the namespaces have (`g = true`) / have not yet been generated -/
def Decl.fails (s : Src) (g : Bool) : Decl → Bool
  | .defn _ => false
  | .nsFetch _ => !g && s.nsFails
  | .ctxGet _ => false
  | .ctxStrict x => (ctxItem s x).isNone
  | .impGet _ => false
  | .impStrict x => match get s.importNs x with
    | some v => v = .undefined && (ctxItem s x).isNone
    | none => (ctxItem s x).isNone

def Decl.exc : Decl → Exc
  | .nsFetch _ => .nsError
  | d => .nameError d.target

abbrev Env := List (Name × Val)

/-- result of running generated code: a value or a raised exception -/
inductive Outcome (α : Type) where
  | ok (a : α)
  | error (e : Exc)
deriving DecidableEq, Repr

/-- run one declaration: the only state is "have the namespaces of this context been generated" -/
def evalDecl (s : Src) (g : Bool) (d : Decl) : Outcome (Val × Bool) :=
  if d.fails s g then .error d.exc else .ok (d.val s, g || d.isNsFetch)

/-- run a declaration block top to bottom; the environment is newest-first (a later assignment wins) -/
def execDecls (s : Src) : List Decl → Env → Bool → Outcome (Env × Bool)
  | [], env, g => .ok (env, g)
  | d :: ds, env, g =>
    match evalDecl s g d with
    | .error e => .error e
    | .ok (v, g') => execDecls s ds ((d.target, v) :: env) g'

/-- a render callable: a declaration block followed by a body that reads the locals -/
def runCallable {Out : Type} (s : Src) (ds : List Decl) (g : Bool) (body : (Name → Option Val) → Out) : Outcome Out :=
  match execDecls s ds [] g with
  | .error e => .error e
  | .ok (env, _) => .ok (body (get env))

/-- the exceptions a block can raise, in block order: the block raises the head of this list -/
def possibleExcs (s : Src) (g : Bool) (ds : List Decl) : List Exc := (ds.filter (Decl.fails s g)).map Decl.exc

/-! ### which declarations are emitted (`write_variable_declares`) -/

def union (a b : List Name) : List Name := a ++ b.filter (fun x => !a.contains x)
def diff (a b : List Name) : List Name := a.filter (fun x => !b.contains x)
def inter (a b : List Name) : List Name := a.filter (fun x => b.contains x)

structure Idents where
  undeclared : List Name
  closuredefs : List Name          -- `[c.funcname for c in identifiers.closuredefs.values()]`
  argumentDeclared : List Name
  locallyDeclared : List Name
  defs : List Name                 -- keys of `comp_idents`
  namespaces : List Name           -- keys of `compiler.namespaces`
deriving Repr

structure GenCfg where
  enableLoop : Bool
  strict : Bool                    -- `compiler.strict_undefined`
  hasNsImports : Bool              -- `compiler.has_ns_imports`
deriving Repr

def loopName : Name := "loop".toList

/-- the set `to_write` (as a duplicate-free list in *some* order; the sets of `Idents` are duplicate-free lists) -/
def toWrite (c : GenCfg) (i : Idents) (limit : Option (List Name)) : List Name :=
  let w := (diff (diff (union i.undeclared i.closuredefs) i.argumentDeclared) i.locallyDeclared)
  let w := if c.enableLoop then w.filter (· ≠ loopName) else w
  match limit with
  | some l => inter w l
  | none => w

/-- `has_loop`: `loop = __M_loop = runtime.LoopStack()` is emitted before the block -/
def hasLoop (c : GenCfg) (i : Idents) : Bool :=
  c.enableLoop && (diff (diff (union i.undeclared i.closuredefs) i.argumentDeclared) i.locallyDeclared).contains loopName

/-- the statement emitted for one identifier -/
def declOf (c : GenCfg) (i : Idents) (x : Name) : Decl :=
  if i.defs.contains x then .defn x
  else if i.namespaces.contains x then .nsFetch x
  else if c.hasNsImports then (if c.strict then .impStrict x else .impGet x)
  else (if c.strict then .ctxStrict x else .ctxGet x)

/-- the declaration block, given the order in which the set was iterated -/
def declBlock (c : GenCfg) (i : Idents) (order : List Name) : List Decl := order.map (declOf c i)

/-- the order in which a set is printed, given the order `iter` in which Python iterates it: since 8e8e5a7 the
generator walks `sorted(the set)` (regenerated flag; `false` = the iteration order itself, the old behaviour) -/
def emitOrder (sorted : Bool) (iter : List Name) : List Name := if sorted then sortStrs iter else iter

/-- the declaration block `write_variable_declares` emits when Python iterates `to_write` in the order `iter` -/
def emittedBlock (c : GenCfg) (i : Idents) (iter : List Name) : List Decl :=
  declBlock c i (emitOrder Generated.Paths8.declsSorted iter)

/-- is `order` what the generator emits for the set `to_write` (for *some* iteration order of the set)? -/
def acceptsOrder (c : GenCfg) (i : Idents) (limit : Option (List Name)) (order : List Name) : Bool :=
  order.isPerm (toWrite c i limit) && (order == emitOrder Generated.Paths8.declsSorted order)

/-- the `__M_locals` snapshot `__M_dict_builtin(a=a, …)` built from the set `argument_declared` iterated as `iter`;
`val` gives the current value of each local -/
def localsSnapshot (iter : List Name) (val : Name → Val) : List (Name × Val) :=
  (emitOrder Generated.Paths8.localsSnapshotSorted iter).map fun n => (n, val n)

/-! ### the `__M_locals` snapshot

`__M_locals = __M_dict_builtin(a=a, b=b, …)` over the set `argument_declared`; a top-level def is then called with
`context._locals(__M_locals)`, i.e. `c._data.update(__M_locals)`. -/

/-- `context._locals(d)._data` -/
def ctxLocals (data : List (Name × Val)) (snapshot : List (Name × Val)) : List (Name × Val) :=
  if snapshot.isEmpty then data else dupdate data snapshot

/-! ## (b) path selection of `Template.__init__` -/

structure Args where
  text : Option Str
  filename : Option Str
  uri : Option Str
  moduleDirectory : Option Str
  moduleFilename : Option Str
  memId : Str                      -- `hex(id(self))`
  cwd : Str                        -- `os.getcwd()` (absolute)
deriving Repr

/-- Python truthiness of an optional string -/
def truthy : Option Str → Bool
  | some (_ :: _) => true
  | _ => false

/-- `re.sub(r"\W", "_", s)` -/
def moduleIdOf (s : Str) : Str := s.map fun c => if Basic.isWord c then c else Generated.Paths8.moduleIdRepl

/-- `self.module_id` -/
def moduleId (a : Args) : Str :=
  if truthy a.uri then moduleIdOf (a.uri.getD [])
  else if truthy a.filename then moduleIdOf (a.filename.getD [])
  else Generated.Paths8.memoryPrefix.toList ++ a.memId

/-- `self.uri` (POSIX: `splitdrive` is the identity, `os.path.sep` is `/`) -/
def templateUri (a : Args) : Str :=
  if truthy a.uri then a.uri.getD []
  else if truthy a.filename then Path.normpath (a.filename.getD [])
  else Generated.Paths8.memoryPrefix.toList ++ a.memId

/-- `os.path.abspath(p)`: `normpath(join(os.getcwd(), p))` -/
def absPath (cwd p : Str) : Str := Path.normpath (Path.joinPath cwd p)

inductive Compile where
  | uriRejected                    -- `TemplateLookupException` (u_norm starts with `..`)
  | text                           -- `_compile_text(self, text, filename)`, `ModuleInfo(module, None, …, code, text, uri)`
  | fileMemory                     -- `_compile_from_file(None, filename)`: the file's bytes compiled in memory
  | fileModule (path : Str)        -- `_compile_from_file(path, filename)`; `path` is absolute (`os.path.abspath`)
  | noSource                       -- `RuntimeException("Template requires text or filename")`
deriving DecidableEq, Repr

def selectPath (a : Args) : Compile :=
  if !Path.templateCheck (templateUri a) then .uriRejected
  else match a.text with
    | some _ => .text
    | none => match a.filename with
      | none => .noSource
      | some _ => match a.moduleFilename with
        | some p => .fileModule (absPath a.cwd p)
        | none => match a.moduleDirectory with
          | some d => .fileModule (absPath a.cwd (Path.modulePath d (templateUri a)))
          | none => .fileMemory

/-- does this path write the magic encoding comment? -/
def Compile.magicComment : Compile → Bool
  | .text | .fileMemory => Generated.Paths8.magicCommentTextPath
  | .fileModule _ => Generated.Paths8.magicCommentModulePath
  | _ => false

/-! ### which file a lookup with several directories serves (`TemplateLookup.__init__`, `get_template`) -/

/-- `TemplateLookup.directories`: the configured directories, normalised, in configuration order (regenerated flag;
`false` = the list went through a set and `iter`, the set's iteration order, is what is searched) -/
def lookupDirs (keepOrder : Bool) (configured iter : List Str) : List Str :=
  if keepOrder then configured.map Path.normpath else iter

/-- the loop of `get_template`: the first directory, in list order, under which the file exists -/
def searchDirs (dirs : List Str) (isFile : Str → Bool) (uri : Str) : Option Str :=
  (dirs.map fun d => Path.uriToSrc d uri).find? isFile

/-- the file `TemplateLookup(directories=configured).get_template(uri)` loads, when Python iterates sets as `iter` -/
def lookupFile (configured iter : List Str) (isFile : Str → Bool) (uri : Str) : Option Str :=
  searchDirs (lookupDirs Generated.Paths8.directoriesKeepOrder configured iter) isFile uri

/-! ### the module preamble (`write_toplevel`) -/

structure ModCfg where
  sourceEncoding : Option Str      -- `lexer.encoding`
  futureImports : List Str
  imports : List Str
  enableLoop : Bool
  filename : Option Str
  uri : Str
  exports : List Name
deriving Repr

inductive Line where
  | magicComment (enc : Str)
  | futureImport (names : List Str)
  | importRuntime | undefinedDef | stopRendering | dictBuiltin | localsBuiltin
  | magicNumber (n : Nat)
  | modifiedTime (t : Nat)
  | enableLoop (b : Bool)
  | templateFilename (f : Option Str)
  | templateUri (u : Str)
  | sourceEncoding (e : Option Str)
  | userImport (s : Str)
  | exports (names : List Name)
  | body (s : Str)                 -- everything after the preamble
deriving DecidableEq, Repr

/-- the format string of the `writeline` call that produces the line (compared with the regenerated list) -/
def Line.format : Line → String
  | .magicComment _ => "# -*- coding:%s -*-"
  | .futureImport _ => "from __future__ import %s"
  | .importRuntime => "from mako import runtime, filters, cache"
  | .undefinedDef => "UNDEFINED = runtime.UNDEFINED"
  | .stopRendering => "STOP_RENDERING = runtime.STOP_RENDERING"
  | .dictBuiltin => "__M_dict_builtin = dict"
  | .localsBuiltin => "__M_locals_builtin = locals"
  | .magicNumber _ => "_magic_number = %r"
  | .modifiedTime _ => "_modified_time = %r"
  | .enableLoop _ => "_enable_loop = %r"
  | .templateFilename _ => "_template_filename = %a"
  | .templateUri _ => "_template_uri = %a"
  | .sourceEncoding _ => "_source_encoding = %r"
  | .userImport _ => "<imp>"
  | .exports _ => "_exports = %r"
  | .body _ => "<body>"

/-- is the magic comment line written: `generate_magic_comment and source_encoding` -/
def emitsMagic (c : ModCfg) (magic : Bool) : Bool := magic && truthy c.sourceEncoding

def preambleHead (c : ModCfg) (magic : Bool) : List Line :=
  (if emitsMagic c magic then [.magicComment (c.sourceEncoding.getD [])] else []) ++
  (if c.futureImports.isEmpty then [] else [.futureImport c.futureImports]) ++
  [.importRuntime, .undefinedDef, .stopRendering, .dictBuiltin, .localsBuiltin,
   .magicNumber Generated.Paths8.magicNumber]

def preambleTail (c : ModCfg) : List Line :=
  [.enableLoop c.enableLoop, .templateFilename c.filename, .templateUri c.uri, .sourceEncoding c.sourceEncoding] ++
  c.imports.map .userImport ++ [.exports c.exports]

/-- the generated module: preamble, then the rest (`rest` does not depend on the path) -/
def moduleLines (c : ModCfg) (magic : Bool) (time : Nat) (rest : List Str) : List Line :=
  preambleHead c magic ++ [.modifiedTime time] ++ preambleTail c ++ rest.map .body

/-- lines that are allowed to differ between the text path and the module-file path -/
def Line.volatile : Line → Bool
  | .magicComment _ | .modifiedTime _ => true
  | _ => false

/-- `printer.source_map` as written into the metadata block: the entries recorded while the rest was printed
(module line = lines before + offset), and the final entry `source_map[lineno] = max(source_map)` -/
def lineMap (c : ModCfg) (magic : Bool) (entries : List (Nat × Nat)) (endOffset : Nat) : List (Nat × Nat) :=
  let base := (moduleLines c magic 0 []).length
  let m := entries.map fun (off, tl) => (base + off, tl)
  m ++ [(base + endOffset, (m.map (·.1)).foldl max 0)]

/-! ## (c) the `ModuleInfo` registry -/

/-- a `ModuleInfo`: who registered it and what its `source` / `code` properties answer -/
structure Info where
  owner : Nat
  source : Str
  code : Str
deriving DecidableEq, Repr

/-- `ModuleInfo._modules`: one string-keyed map for module names and module file names alike (first item wins) -/
abbrev Registry := List (Str × Info)

/-- a live template: its module's `__name__` (= `module_id`), optional module file name, own source and code -/
structure Tmpl where
  id : Nat
  modName : Str
  modFile : Option Str
  source : Str
  code : Str
deriving DecidableEq, Repr

def Tmpl.info (t : Tmpl) : Info := ⟨t.id, t.source, t.code⟩

/-- the keys `ModuleInfo.__init__` writes: `module.__name__`, and `module_filename` when truthy -/
def Tmpl.keys (t : Tmpl) : List Str := t.modName :: (if truthy t.modFile then [t.modFile.getD []] else [])

/-- `ModuleInfo.__init__`: `_modules[key] = self` replaces whatever was stored under the key -/
def register (r : Registry) (t : Tmpl) : Registry :=
  (t.keys.map fun k => (k, t.info)) ++ r.filter (fun e => !t.keys.contains e.1)

def registerAll (ts : List Tmpl) : Registry := ts.foldl register []

/-- the garbage collector drops a template: weak values vanish with their `ModuleInfo` -/
def collect (r : Registry) (id : Nat) : Registry := r.filter (·.2.owner ≠ id)

/-- `_get_module_info_from_callable(t.callable_)`: the key is `callable_.__globals__["__name__"]` -/
def infoOf (r : Registry) (t : Tmpl) : Option Info := get r t.modName

/-- `Template.source` (`none` = `KeyError`) -/
def sourceOf (r : Registry) (t : Tmpl) : Option Str := (infoOf r t).map (·.source)
/-- `Template.code` -/
def codeOf (r : Registry) (t : Tmpl) : Option Str := (infoOf r t).map (·.code)

/-! ### `ModuleInfo.source` on the paths that hold the template source as bytes

The file paths (file compiled in memory, module directory, a re-loaded module file, `ModuleTemplate` given
`template_source` bytes) keep the *bytes* of the template; the text they were compiled from is what the lexer made of
those bytes: `Lexer.decode_raw_stream` removes one utf-8 byte order mark, if the bytes start with one, and decodes the
rest.  `ModuleInfo.source` has to hand back that same text. -/

abbrev Bytes := List Nat

def bomUtf8 : Bytes := [0xEF, 0xBB, 0xBF]

/-- `if data.startswith(BOM): data = data[len(BOM):]` – what the lexer does, and what `ModuleInfo.source` does when
the regenerated flag `sourceStripsOneBom` holds -/
def stripBomOnce (b : Bytes) : Bytes := if bomUtf8.isPrefixOf b then b.drop 3 else b

/-- `data.lstrip(BOM)`: `bytes.lstrip` takes a *set* of byte values – any leading 0xEF / 0xBB / 0xBF goes (one way of
getting the BOM treatment wrong; only used by the documentation theorem) -/
def lstripBomBytes (b : Bytes) : Bytes := b.dropWhile (fun x => bomUtf8.contains x)

/-- the bytes `Lexer.decode_raw_stream` decodes -/
def lexerPayload (b : Bytes) : Bytes := stripBomOnce b

/-- the bytes `ModuleInfo.source` decodes (`exact` = the regenerated flag) -/
def sourcePayload (exact : Bool) (b : Bytes) : Bytes := if exact then stripBomOnce b else lstripBomBytes b

/-- `ModuleInfo.source` for a template held as bytes; `dec` is the codec of `module._source_encoding` -/
def sourceOfBytes (dec : Bytes → Option Str) (b : Bytes) : Option Str :=
  dec (sourcePayload Generated.Paths8.sourceStripsOneBom b)

/-! ### `ModuleInfo.code` on the module-file path: a read of the file at access time

`ModuleInfo.code`: `module_source` if it is not `None`, else `util.read_python_file(self.module_filename)`.  The
module file is rewritten in place whenever the template is regenerated, so the answer must be a function of the file
system *at the time of the access*. -/

/-- the file system: path ↦ (decoded) content -/
abbrev FS := List (Str × Str)

/-- a history of (re)writes of files, oldest first: `_compile_module_file` moving a new module into place -/
def applyWrites (fs : FS) (ws : List (Str × Str)) : FS := dupdate fs ws

/-- what a `ModuleInfo` holds for `code`: the text (text path, in-memory file path) or only the module file name -/
structure CodeRef where
  moduleSource : Option Str
  moduleFile : Option Str
deriving DecidableEq, Repr

/-- `ModuleInfo.code` evaluated against the file system `fs` (`none` = the read fails) -/
def CodeRef.code (fs : FS) (r : CodeRef) : Option Str :=
  match r.moduleSource with
  | some c => some c
  | none => match r.moduleFile with
    | some p => get fs p
    | none => none

/-! ### which module EXECUTES after a module file is regenerated in place

`compat.load_module` goes through the import system, which trusts cached bytecode whose recorded stamp (mtime in
whole seconds, size) equals the stamp of the source file.  `_compile_module_file` writes the new module through the
default writer or through `module_writer=` and then - on the path common to BOTH branches (regenerated flags
`Generated.ModFile.dropsBytecode` for the default writer and `Generated.ModFile.dropsBytecodeHook` for a custom
`module_writer`, read from the function's AST by tools/regen_modfile.py) - removes that bytecode. -/

/-- a module file on disk and its `__pycache__` entry -/
structure ModFile where
  src : Str                                  -- the module text in the file
  stamp : Nat × Nat                          -- (mtime in whole seconds, size)
  pyc : Option ((Nat × Nat) × Str)           -- cached bytecode: the stamp it was compiled for, and what it runs
deriving DecidableEq, Repr

/-- the module the import system executes for the file -/
def ModFile.executes (m : ModFile) : Str :=
  match m.pyc with
  | some (st, code) => if st = m.stamp then code else m.src
  | none => m.src

/-- importing caches the bytecode of what was executed -/
def ModFile.imported (m : ModFile) : ModFile := { m with pyc := some (m.stamp, m.executes) }

/-- `_compile_module_file(…, outputpath, module_writer)`: the writer puts `src` in place (the file gets `stamp`);
then the cached bytecode is removed iff `dropPyc` -/
def ModFile.regenerate (dropPyc : Bool) (m : ModFile) (src : Str) (stamp : Nat × Nat) : ModFile :=
  { src := src, stamp := stamp, pyc := if dropPyc then none else m.pyc }

/-- is the bytecode removed after the write – one regenerated flag per writer branch: `dropsBytecodeHook` when a
`module_writer` was given (`hook = true`), `dropsBytecode` for the default writer -/
def dropsAfter (hook : Bool) : Bool :=
  if hook then Generated.ModFile.dropsBytecodeHook else Generated.ModFile.dropsBytecode

/-- `_compile_module_file` as the code is now, with (`hook`) or without a custom `module_writer` -/
def ModFile.recompiled (hook : Bool) (m : ModFile) (src : Str) (stamp : Nat × Nat) : ModFile :=
  m.regenerate (dropsAfter hook) src stamp

/-! ## (d) `_kwargs_for_callable`, `has_def`, `list_defs` -/

/-- `compat.inspect_getargspec(callable_)`: positional-or-keyword names (`co_varnames[:co_argcount]`), the `*name`,
the `**name`; keyword-only parameters are not reported -/
structure Sig where
  args : List Name
  varargs : Option Name
  varkw : Option Name
  kwonly : List Name
deriving Repr

def contextName : Name := "context".toList

/-- `namedargs = argspec[0] + [v for v in argspec[1:3] if v is not None]` -/
def Sig.named (s : Sig) : List Name := s.args ++ s.varargs.toList ++ s.varkw.toList

/-- the loop of `_kwargs_for_callable`: `if arg != "context" and arg in data and arg not in kwargs: kwargs[arg] = data[arg]` -/
def kwargsLoop {β} (data : List (Name × β)) : List Name → List (Name × β) → List (Name × β)
  | [], kw => kw
  | a :: r, kw =>
    match get data a with
    | some v => if a ≠ contextName ∧ (get kw a).isNone then kwargsLoop data r (kw ++ [(a, v)]) else kwargsLoop data r kw
    | none => kwargsLoop data r kw

/-- `runtime._kwargs_for_callable(callable_, data)` -/
def kwargsForCallable {β} (s : Sig) (data : List (Name × β)) : List (Name × β) :=
  if s.varkw.isSome then data else kwargsLoop data s.named []

def renderPrefix : Str := "render_".toList

/-- `Template.has_def(name)`: `hasattr(self.module, "render_%s" % name)` -/
def hasDef (attrs : List Str) (n : Name) : Bool := attrs.contains (renderPrefix ++ n)

/-- `Template.list_defs()`: `[i[7:] for i in dir(self.module) if i[:7] == "render_"]` (`dir` sorts) -/
def listDefs (attrs : List Str) : List Name :=
  ((sortStrs attrs).filter (fun a => a.take 7 = renderPrefix)).map (·.drop 7)

end MakoModel.Paths8
