import MakoModel.Basic.Wire
import MakoModel.Paths8.Model
/-!
Driver handler for the C08 models: `p8 <fn> <args…>`.

A *list of strings* field is the `/`-joined encodings of its items, `[]` for the empty list; an *optional string*
is `none` or the encoding.
-/
namespace MakoModel.Paths8.Drv
open MakoModel.Wire

def decList (f : String) : Option (List (List Char)) :=
  if f == "[]" then some [] else (f.splitOn "/").mapM decStr

def encL (xs : List (List Char)) : String :=
  if xs.isEmpty then "[]" else "/".intercalate (xs.map encStr)

def decOpt (f : String) : Option (Option (List Char)) :=
  if f == "none" then some none else (decStr f).map some

def decDecl (f : String) : Option Decl :=
  match f.splitOn ":" with
  | [k, n] => do
    let x ← decStr n
    match k with
    | "d" => some (.defn x)
    | "n" => some (.nsFetch x)
    | "g" => some (.ctxGet x)
    | "s" => some (.ctxStrict x)
    | "i" => some (.impGet x)
    | "j" => some (.impStrict x)
    | _ => none
  | _ => none

def encDecl : Decl → String
  | .defn x => "d:" ++ encStr x
  | .nsFetch x => "n:" ++ encStr x
  | .ctxGet x => "g:" ++ encStr x
  | .ctxStrict x => "s:" ++ encStr x
  | .impGet x => "i:" ++ encStr x
  | .impStrict x => "j:" ++ encStr x

def decDecls (f : String) : Option (List Decl) :=
  if f == "[]" then some [] else (f.splitOn "/").mapM decDecl

def encVal : Val → String
  | .undefined => "U"
  | .data v => "D" ++ encStr v
  | .ns n => "N" ++ encStr n
  | .closure n => "C" ++ encStr n

def tagged (t : Char) (ks : List Name) : List (Name × Val) := ks.map fun k => (k, .data (t :: k))

/-- insertion sort of names by `strLe` (canonical output order) -/
def sortNames (l : List Name) : List Name := sortStrs l

def encCompile : Compile → String
  | .uriRejected => "rejected"
  | .text => "text"
  | .fileMemory => "filemem"
  | .fileModule p => "filemod " ++ encStr p
  | .noSource => "nosource"

/-- registry script: `r:<id>:<modname>:<modfile|none>` register, `c:<id>` collect, `q:<id>` whose info does template
`id` read (owner id, or `none` = KeyError) -/
def runRegistry (ops : List String) : Option String := do
  let mut reg : Registry := []
  let mut tmpls : List Tmpl := []
  let mut out : List String := []
  for op in ops do
    match op.splitOn ":" with
    | ["r", i, m, f] =>
      let id ← i.toNat?
      let mn ← decStr m
      let mf ← decOpt f
      let t : Tmpl := ⟨id, mn, mf, [], []⟩
      tmpls := t :: tmpls.filter (·.id ≠ id)
      reg := register reg t
    | ["c", i] =>
      let id ← i.toNat?
      reg := collect reg id
    | ["q", i] =>
      let id ← i.toNat?
      let t ← tmpls.find? (·.id = id)
      out := out ++ [match infoOf reg t with | some inf => toString inf.owner | none => "none"]
    | _ => none
  pure (if out.isEmpty then "-" else " ".intercalate out)

def handle : Handler
  | ["modid", s] => do let s ← decStr s; pure (encStr (moduleIdOf s))
  | ["select", t, f, u, md, mf, mem, cwd] => do
    let a : Args := ⟨← decOpt t, ← decOpt f, ← decOpt u, ← decOpt md, ← decOpt mf, ← decStr mem, ← decStr cwd⟩
    pure (s!"{encStr (moduleId a)} {encStr (templateUri a)} {encCompile (selectPath a)}")
  | ["kwargs", args, va, vk, ko, data] => do
    let s : Sig := ⟨← decList args, ← decOpt va, ← decOpt vk, ← decList ko⟩
    let d ← decList data
    pure (encL ((kwargsForCallable s (d.map fun k => (k, k))).map (·.1)))
  | ["decls", el, st, ni, und, clo, argd, locd, defs, nss, lim, order] => do
    let c : GenCfg := ⟨← decBool el, ← decBool st, ← decBool ni⟩
    let i : Idents := ⟨← decList und, ← decList clo, ← decList argd, ← decList locd, ← decList defs, ← decList nss⟩
    let lim ← if lim == "none" then some none else (decList lim).map some
    let order ← decList order
    if acceptsOrder c i lim order then
      let ds := declBlock c i order
      pure (s!"ok {encBool (hasLoop c i)} " ++ (if ds.isEmpty then "[]" else "/".intercalate (ds.map encDecl)))
    else
      pure ("reject " ++ encL (sortNames (toWrite c i lim)))
  | ["exec", nf, g, ctx, bi, imp, impU, ds] => do
    let s : Src := ⟨tagged 'c' (← decList ctx), tagged 'b' (← decList bi),
                    tagged 'i' (← decList imp) ++ (← decList impU).map (fun k => (k, Val.undefined)), ← decBool nf⟩
    let ds ← decDecls ds
    match execDecls s ds [] (← decBool g) with
    | .error (.nameError x) => pure ("err name " ++ encStr x)
    | .error .nsError => pure "err ns"
    | .ok (env, g') =>
      let names := sortNames ((ds.map Decl.target).eraseDups)
      let items := names.map fun n => encStr n ++ "=" ++ (match get env n with | some v => encVal v | none => "?")
      pure (s!"ok {encBool g'} " ++ (if items.isEmpty then "[]" else "/".intercalate items))
  | ["perm", a, b] => do
    let a ← decDecls a
    let b ← decDecls b
    pure (encBool (a.isPerm b && (a.map Decl.target).eraseDups.length == a.length))
  | ["locals", data, snap] => do
    let d ← decList data
    let sn ← decList snap
    pure (encL (keys (ctxLocals (d.map fun k => (k, Val.undefined)) (sn.map fun k => (k, Val.undefined)))))
  | ["search", dirs, files, uri] => do
    let ds ← decList dirs
    let fs ← decList files
    pure (encOpt encStr (lookupFile ds ds.reverse (fun f => fs.contains f) (← decStr uri)))
  | ["srcbytes", b] => do
    -- bytes are sent as a string of code points 0..255; answer: the bytes `ModuleInfo.source` decodes
    let bs := (← decStr b).map Char.toNat
    pure (encStr ((sourcePayload Generated.Paths8.sourceStripsOneBom bs).map Char.ofNat))
  | "registry" :: ops => runRegistry ops
  | "codehist" :: src :: mf :: ops => do
    -- `codehist <module_source|none> <module_filename|none> (w:<path>:<content> | q)*` : answers of every `q`
    let r : CodeRef := ⟨← decOpt src, ← decOpt mf⟩
    let mut fs : FS := []
    let mut out : List String := []
    for op in ops do
      match op.splitOn ":" with
      | ["w", p, c] => fs := applyWrites fs [(← decStr p, ← decStr c)]
      | ["q"] => out := out ++ [match r.code fs with | some c => encStr c | none => "none"]
      | _ => none
    pure (if out.isEmpty then "[]" else " ".intercalate out)
  | ["listdefs", attrs] => do pure (encL (listDefs (← decList attrs)))
  | ["hasdef", attrs, n] => do pure (encBool (hasDef (← decList attrs) (← decStr n)))
  | ["header", enc, nfut, nimp, magic] => do
    let c : ModCfg := ⟨← decOpt enc, List.replicate (← nfut.toNat?) ['x'], List.replicate (← nimp.toNat?) ['y'],
                       true, none, [], []⟩
    pure (encL ((moduleLines c (← decBool magic) 0 []).map fun l => l.format.toList))
  | ["magic", kind] =>
    match kind with
    | "text" => pure (encBool Compile.text.magicComment)
    | "filemem" => pure (encBool Compile.fileMemory.magicComment)
    | "filemod" => pure (encBool (Compile.fileModule []).magicComment)
    | _ => none
  | _ => none

end MakoModel.Paths8.Drv
