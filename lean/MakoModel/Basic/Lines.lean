/-!
# L0 – lines and columns of a position in a source string

`lineOf s i` / `colOf s i` are exactly what `Lexer.match_reg` (mako/lexer.py) stores in
`matched_lineno` / `matched_charpos` for a match that starts at `match_position = i`:

```python
mp = self.match_position
...
self.matched_lineno = self.lineno                       # = 1 + number of "\n" in text[:mp]  (invariant)
cp = mp - 1
if cp >= 0 and cp < self.textlength:
    cp = self.text[: cp + 1].rfind("\n")                # index of the last "\n" in text[:mp], or -1
self.matched_charpos = mp - cp
self.lineno += self.text[mp : self.match_position].count("\n")
```

Strings are `List Char`; a "line" ends at `'\n'` only (a lone `'\r'` does not end a line for mako).
-/
namespace MakoModel.Basic

/-- number of `'\n'` characters (`str.count("\n")`) -/
def countNL : List Char → Nat
  | [] => 0
  | c :: cs => (if c = '\n' then 1 else 0) + countNL cs

/-- Python `s[a:b]` for `0 ≤ a` (clamps at the end of `s`; empty when `b ≤ a`) -/
def slice (s : List Char) (a b : Nat) : List Char := (s.drop a).take (b - a)

/-- `l.rfind("\n")`: index of the last `'\n'`, `none` for Python's `-1` -/
def rfindNL : List Char → Option Nat
  | [] => none
  | c :: cs =>
    match rfindNL cs with
    | some k => some (k + 1)
    | none => if c = '\n' then some 0 else none

/-- the value of `Lexer.lineno` when `match_position = i`: 1 + number of newlines before `i` -/
def lineOf (s : List Char) (i : Nat) : Nat := 1 + countNL (s.take i)

/-- `matched_charpos` for a match starting at `mp`, following `match_reg`'s arithmetic literally
    (`cp` is an integer there; the three cases are `cp = -1`, `cp = rfind`, `cp = mp-1` unchanged) -/
def colOf (s : List Char) (mp : Nat) : Nat :=
  if mp = 0 then 1                                   -- cp = -1, not `>= 0`:            mp - (-1)
  else if mp - 1 < s.length then
    match rfindNL (s.take mp) with
    | none => mp + 1                                 -- rfind = -1:                      mp - (-1)
    | some k => mp - k                               --                                   mp - k
  else 1                                             -- cp = mp - 1 ≥ textlength:        mp - (mp-1)

/-- number of characters after the last `'\n'` (the whole length when there is none) -/
def lastLineLen : List Char → Nat
  | [] => 0
  | c :: cs =>
    match rfindNL cs with
    | some _ => lastLineLen cs
    | none => if c = '\n' then cs.length else cs.length + 1

/-! ## lemmas -/

@[simp] theorem countNL_nil : countNL [] = 0 := rfl

theorem countNL_cons (c : Char) (cs : List Char) :
    countNL (c :: cs) = (if c = '\n' then 1 else 0) + countNL cs := rfl

theorem countNL_append (a b : List Char) : countNL (a ++ b) = countNL a + countNL b := by
  induction a with
  | nil => simp
  | cons c cs ih => simp only [List.cons_append, countNL_cons, ih]; omega

theorem countNL_le_length (l : List Char) : countNL l ≤ l.length := by
  induction l with
  | nil => simp
  | cons c cs ih => simp only [countNL_cons, List.length_cons]; split <;> omega

theorem countNL_eq_zero_iff (l : List Char) : countNL l = 0 ↔ '\n' ∉ l := by
  induction l with
  | nil => simp
  | cons c cs ih =>
    simp only [countNL_cons, List.mem_cons, not_or]
    by_cases h : c = '\n'
    · simp [h]
    · simp only [h, if_false, Nat.zero_add, ih]
      constructor
      · intro h2; exact ⟨fun e => h e.symm, h2⟩
      · intro h2; exact h2.2

theorem slice_eq (s : List Char) (a b : Nat) : slice s a b = (s.drop a).take (b - a) := rfl

@[simp] theorem slice_self (s : List Char) (a : Nat) : slice s a a = [] := by simp [slice]

theorem slice_length_le (s : List Char) (a b : Nat) : (slice s a b).length ≤ b - a := by
  simp only [slice, List.length_take]; omega

theorem slice_length (s : List Char) (a b : Nat) (h : b ≤ s.length) : (slice s a b).length = b - a := by
  simp only [slice, List.length_take, List.length_drop]; omega

/-- gluing two adjacent slices -/
theorem slice_append (s : List Char) (a b c : Nat) (h1 : a ≤ b) (h2 : b ≤ c) :
    slice s a b ++ slice s b c = slice s a c := by
  unfold slice
  have e1 : s.drop b = (s.drop a).drop (b - a) := by
    rw [List.drop_drop]; congr 1; omega
  have e2 : c - a = (b - a) + (c - b) := by omega
  rw [e1, e2, List.take_add]

theorem take_append_slice (s : List Char) (a b : Nat) (h : a ≤ b) :
    s.take a ++ slice s a b = s.take b := by
  have := slice_append s 0 a b (Nat.zero_le _) h
  simpa [slice] using this

theorem slice_zero_length (s : List Char) : slice s 0 s.length = s := by simp [slice]

theorem lineOf_zero (s : List Char) : lineOf s 0 = 1 := by simp [lineOf]

/-- the "line algebra": moving from `a` to `b ≥ a` adds the newlines in between
    (this is `self.lineno += text[mp:match_position].count("\n")`) -/
theorem lineOf_add (s : List Char) (a b : Nat) (h : a ≤ b) :
    lineOf s b = lineOf s a + countNL (slice s a b) := by
  unfold lineOf
  rw [← take_append_slice s a b h, countNL_append]; omega

theorem lineOf_mono (s : List Char) (a b : Nat) (h : a ≤ b) : lineOf s a ≤ lineOf s b := by
  rw [lineOf_add s a b h]; omega

theorem lineOf_pos (s : List Char) (i : Nat) : 1 ≤ lineOf s i := by unfold lineOf; omega

theorem lineOf_le (s : List Char) (i : Nat) : lineOf s i ≤ 1 + s.length := by
  unfold lineOf
  have := countNL_le_length (s.take i)
  simp only [List.length_take] at this
  omega

theorem rfindNL_none_iff (l : List Char) : rfindNL l = none ↔ '\n' ∉ l := by
  induction l with
  | nil => simp [rfindNL]
  | cons c cs ih =>
    simp only [rfindNL, List.mem_cons, not_or]
    cases h : rfindNL cs with
    | some k =>
      simp only [reduceCtorEq, false_iff, not_and, Classical.not_not]
      intro _
      have : ¬ ('\n' ∉ cs) := fun hn => by rw [ih.mpr hn] at h; cases h
      exact Classical.not_not.mp this
    | none =>
      have hn := ih.mp h
      by_cases hc : c = '\n'
      · simp [hc]
      · simp only [hc, if_false, true_iff]
        exact ⟨fun e => hc e.symm, hn⟩

theorem rfindNL_lt (l : List Char) (k : Nat) (h : rfindNL l = some k) : k < l.length := by
  induction l generalizing k with
  | nil => simp [rfindNL] at h
  | cons c cs ih =>
    simp only [rfindNL] at h
    cases h2 : rfindNL cs with
    | some j =>
      simp only [h2, Option.some.injEq] at h
      have := ih j h2
      simp only [List.length_cons]; omega
    | none =>
      simp only [h2] at h
      split at h
      · cases h; simp
      · cases h

/-- `rfind` and `lastLineLen` describe the same thing -/
theorem rfindNL_lastLineLen (l : List Char) (k : Nat) (h : rfindNL l = some k) :
    k + 1 + lastLineLen l = l.length := by
  induction l generalizing k with
  | nil => simp [rfindNL] at h
  | cons c cs ih =>
    simp only [rfindNL] at h
    cases h2 : rfindNL cs with
    | some j =>
      simp only [h2, Option.some.injEq] at h
      have := ih j h2
      simp only [lastLineLen, h2, List.length_cons]; omega
    | none =>
      simp only [h2] at h
      split at h
      · rename_i hc
        cases h
        simp [lastLineLen, h2, hc]; omega
      · cases h

theorem lastLineLen_of_no_nl (l : List Char) (h : rfindNL l = none) : lastLineLen l = l.length := by
  cases l with
  | nil => rfl
  | cons c cs =>
    simp only [rfindNL] at h
    cases h2 : rfindNL cs with
    | some j => simp [h2] at h
    | none =>
      simp only [h2] at h
      split at h
      · cases h
      · rename_i hc; simp [lastLineLen, h2, hc]

/-- column = 1 + number of characters since the last newline (for positions inside or at the end of `s`) -/
theorem colOf_eq (s : List Char) (i : Nat) (h : i ≤ s.length) :
    colOf s i = lastLineLen (s.take i) + 1 := by
  unfold colOf
  split
  · rename_i h0; subst h0; simp [lastLineLen]
  · rename_i h0
    have hlt : i - 1 < s.length := by omega
    simp only [hlt, if_true]
    have hlen : (s.take i).length = i := by simp [List.length_take]; omega
    cases hr : rfindNL (s.take i) with
    | none =>
      simp only
      rw [lastLineLen_of_no_nl _ hr, hlen]
    | some k =>
      simp only
      have := rfindNL_lastLineLen _ k hr
      rw [hlen] at this
      omega

theorem colOf_zero (s : List Char) : colOf s 0 = 1 := by simp [colOf]

theorem colOf_pos (s : List Char) (i : Nat) : 1 ≤ colOf s i := by
  unfold colOf
  split
  · omega
  · split
    · split
      · omega
      · rename_i k hk
        have := rfindNL_lt _ k hk
        simp only [List.length_take] at this
        omega
    · omega

end MakoModel.Basic
