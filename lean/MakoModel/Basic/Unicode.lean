import MakoModel.Generated.Unicode
/-!
# L0 – the regex classes `\w`, `\s` and `str.isspace` on Unicode scalar values

The range tables are regenerated from the running interpreter (`tools/regen_unicode.py`); here they are
turned into predicates (linear search in a sorted range list with early exit) and their shape is checked.
-/
namespace MakoModel.Basic
open MakoModel.Generated

/-- membership in a sorted list of inclusive ranges -/
def inRanges : List (Nat × Nat) → Nat → Bool
  | [], _ => false
  | (lo, hi) :: rest, c => if c < lo then false else if c ≤ hi then true else inRanges rest c

/-- ranges are well-formed, strictly increasing and non-adjacent (so the early exit of `inRanges` is sound
    and the table is canonical) -/
def rangesSorted : List (Nat × Nat) → Bool
  | [] => true
  | [(lo, hi)] => lo ≤ hi
  | (lo, hi) :: (lo', hi') :: rest => lo ≤ hi && hi + 1 < lo' && rangesSorted ((lo', hi') :: rest)

/-- regex `\w` (str pattern, no ASCII flag) -/
def isWord (c : Char) : Bool := inRanges Unicode.wordRanges c.toNat
/-- regex `\s` (str pattern, no ASCII flag) -/
def isSpace (c : Char) : Bool := inRanges Unicode.spaceRanges c.toNat
/-- `str.isspace` – the characters `str.strip()` removes -/
def isPySpace (c : Char) : Bool := inRanges Unicode.isspaceRanges c.toNat

/-- `[\t ]` -/
def isBlank (c : Char) : Bool := c == ' ' || c == '\t'

theorem wordRanges_sorted : rangesSorted Unicode.wordRanges = true := by decide +kernel
theorem spaceRanges_sorted : rangesSorted Unicode.spaceRanges = true := by decide +kernel
theorem isspaceRanges_sorted : rangesSorted Unicode.isspaceRanges = true := by decide +kernel

/-- the ASCII part of `\w` is `[0-9A-Za-z_]` -/
theorem word_ascii : (List.range 128).filter (inRanges Unicode.wordRanges) =
    (List.range 128).filter (fun c => (48 ≤ c && c ≤ 57) || (65 ≤ c && c ≤ 90) || c == 95 || (97 ≤ c && c ≤ 122)) := by
  decide +kernel

/-- the ASCII part of `\s` is `\t\n\v\f\r`, `\x1c`–`\x1f` and space -/
theorem space_ascii : (List.range 128).filter (inRanges Unicode.spaceRanges) =
    [9, 10, 11, 12, 13, 28, 29, 30, 31, 32] := by decide +kernel

/-- blanks `[\t ]` are `\s` characters; newline and CR are `\s`; `%`, `#` are not -/
theorem blank_isSpace (c : Char) (h : isBlank c = true) : isSpace c = true := by
  simp only [isBlank, Bool.or_eq_true, beq_iff_eq] at h
  rcases h with h | h <;> subst h <;> decide +kernel

end MakoModel.Basic
