/-!
# Wire format of the line protocol

One request per line: `op field field …`.  A *string* field is the comma-separated list of
the decimal code points of its characters, `-` for the empty string, so CR, LF, NUL and astral
characters survive the pipe.  Numbers are plain decimals.  Responses use the same encoding.
Nothing here is referred to by a property theorem; it is part of the trusted correspondence
harness.
-/
namespace MakoModel.Wire

def decStr (f : String) : Option (List Char) :=
  if f == "-" then some [] else
    (f.splitOn ",").mapM fun t => t.toNat?.map Char.ofNat

def encStr (s : List Char) : String :=
  if s.isEmpty then "-" else ",".intercalate (s.map fun c => toString c.toNat)

def encList (xs : List (List Char)) : String :=
  if xs.isEmpty then "[]" else " ".intercalate (xs.map encStr)

def encBool (b : Bool) : String := if b then "1" else "0"

def decBool (f : String) : Option Bool :=
  if f == "1" then some true else if f == "0" then some false else none

def encOpt {α} (f : α → String) : Option α → String
  | none => "none"
  | some a => f a

/-- A handler takes the fields after the op and answers one line, or `none` for a malformed request. -/
abbrev Handler := List String → Option String

end MakoModel.Wire
