import MakoModel.Basic.Wire
import MakoModel.Conc.Model
/-!
Driver handler for the interleaving model (op `conc`).

`conc run <ndirs> <checks 0|1> <cap -|n> <clock> <fs> <progs> <sched>`

* `<fs>`    `-` or `;`-separated `d.u.ver.mtime.good`
* `<progs>` thread programs separated by `|` (thread ids 0,1,…); a program is `-` or `;`-separated ops
            `g<u>` get_template · `w<d>.<u>.<good>` write file · `t` tick · `r<ctx>[.<kind>…]` render · `a<k>` adjust_uri
* `<sched>` `-` or `,`-separated thread ids

Answer (space separated):
`<trace> <results> <constructions> <collection> <deadlock> <finished>`

* trace      `-` or `,`-separated `<tid><label>`, label = scheduling point taken (see Model.lean), `!` when the
             model offers no step to that thread in that state (finished / blocked)
* results    per thread, `|`-separated; `-` or `;`-separated `ok.<id>.<ver>.<stamp>.<viaH2>` · `top` · `gone` ·
             `cerr` · `rn.<id>.<ver>.<ctx>` · `not` · `adj.<k>` · `keyerr`
* collection `-` or `;`-separated `<key>.<id>.<ts>` sorted by key
* deadlock   1 iff some thread is unfinished and no thread can step
* finished   one digit per thread
-/
namespace MakoModel.Conc.Drv
open MakoModel.Wire MakoModel.Conc

def nat? (s : String) : Option Nat := if s.isEmpty then none else s.toNat?

def parseOp (t : String) : Option Op :=
  if t.isEmpty then none else
  let tag := t.front
  let body := (t.drop 1).toString
  let args := if body.isEmpty then some [] else (body.splitOn ".").mapM nat?
  match tag, args with
  | 't', some [] => some .tick
  | 'w', some [d, u, g] => some (.write d u (g != 0))
  | 'g', some [u] => some (.get u)
  | 'r', some (ctx :: kinds) => some (.render ctx kinds)
  | 'a', some [k] => some (.adjust k)
  | _, _ => none

def parseProg (f : String) : Option (List Op) :=
  if f == "-" then some [] else (f.splitOn ";").mapM parseOp

def parseFs (f : String) : Option FS :=
  if f == "-" then some emptyFS else do
    let recs ← (f.splitOn ";").mapM fun r => (r.splitOn ".").mapM nat?
    recs.foldlM (fun (fs : FS) r =>
      match r with
      | [d, u, v, m, g] => some (fun d' u' => if d' = d ∧ u' = u then some ⟨v, m, g != 0⟩ else fs d' u')
      | _ => none) emptyFS

def parseSched (f : String) : Option (List Nat) :=
  if f == "-" then some [] else (f.splitOn ",").mapM nat?

def label (s : Sys) (tid : Tid) : String :=
  let th := s.threads tid
  match th.pc with
  | .idle =>
    match th.prog with
    | [] => "!"
    | .get _ :: _ => "R" | .write .. :: _ => "V" | .tick :: _ => "T" | .render .. :: _ => "B"
    | .adjust _ :: _ => "g"
  | .gS .. => "S" | .gP .. => "P" | .gPx .. => "P" | .gF .. => "F"
  | .gAcq .. => if s.sh.mutex.isSome then "!" else "A"
  | .gH2 .. => "R" | .gC .. => "C" | .gW .. => "W" | .gM .. => "L" | .gMd .. => "D"
  | .gP2 .. => "P" | .gRel .. => "X" | .gRelS .. => "X" | .rK .. => "K" | .aS .. => "s"

def runTrace : List Tid → Sys → List String → Sys × List String
  | [], s, acc => (s, acc.reverse)
  | t :: rest, s, acc =>
    let l := toString t ++ label s t
    match step s t with
    | none => runTrace rest s (l :: acc)
    | some s' => runTrace rest s' (l :: acc)

def encRes : Res → String
  | .tmpl t h _ => s!"ok.{t.id}.{t.ver}.{t.stamp}.{if h then 1 else 0}"
  | .notFound => "top"
  | .gone => "gone"
  | .compileError => "cerr"
  | .rendered i v c _ _ => s!"rn.{i}.{v}.{c}"
  | .noTemplate => "not"
  | .adjusted k => s!"adj.{k}"
  | .keyError => "keyerr"

def joinOr (sep : String) (l : List String) : String := if l.isEmpty then "-" else sep.intercalate l

def insertKey (e : Entry) : List Entry → List Entry
  | [] => [e]
  | x :: r => if e.key ≤ x.key then e :: x :: r else x :: insertKey e r

def handle : Handler
  | ["run", nd, ck, cap, clk, fs, progs, sched] => do
    let nd ← nat? nd
    let ck ← decBool ck
    let cap ← if cap == "-" then some none else (nat? cap).map some
    let clk ← nat? clk
    let fs ← parseFs fs
    let ps ← (progs.splitOn "|").mapM parseProg
    let sc ← parseSched sched
    let n := ps.length
    let s0 := mkSys ⟨nd, ck, cap⟩ fs clk (fun t => ps.getD t [])
    let (s, tr) := runTrace sc s0 []
    let tids := List.range n
    let res := tids.map fun t => joinOr ";" ((s.threads t).results.map encRes)
    let coll := (s.sh.coll.foldr insertKey []).map fun e => s!"{e.key}.{e.val.id}.{e.ts}"
    let unfinished := tids.any fun t => !decide (s.threads t).finished
    let canStep := tids.any fun t => (step s t).isSome
    let fin := String.join (tids.map fun t => if decide (s.threads t).finished then "1" else "0")
    pure (" ".intercalate
      [joinOr "," tr, "|".intercalate res, toString s.sh.constructions, joinOr ";" coll,
       encBool (unfinished && !canStep), fin])
  | _ => none

end MakoModel.Conc.Drv
