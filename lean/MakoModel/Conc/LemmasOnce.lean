import MakoModel.Conc.LemmasInv
/-!
`first_requests_compile_once`: any number of threads whose programs consist of `get u` only (no file-system
change), on an empty lookup: one construction, every call returns that template.
-/
namespace MakoModel.Conc
open MakoModel.Generated.Lookup

/-- the shape of a program counter in a first-request system; `c` = number of constructions so far -/
def PcOnce (u : Uri) (d0 : Dir) (t0 : Tmpl) (c : Nat) : Pc → Prop
  | .idle => True
  | .gS u' t | .gRelS u' t => u' = u ∧ t = t0 ∧ c = 1
  | .gF u' d => u' = u ∧ d ≤ d0
  | .gAcq u' d | .gH2 u' d | .gC u' d => u' = u ∧ d = d0
  | .gW u' d t => u' = u ∧ d = d0 ∧ t = t0 ∧ c = 1
  | .gM r | .gRel r => (∃ b f0, r = .tmpl t0 b f0) ∧ c = 1
  | _ => False

theorem PcOnce.one {u : Uri} {d0 : Dir} {t0 : Tmpl} {c : Nat} {pc : Pc} (h : PcOnce u d0 t0 c pc) :
    PcOnce u d0 t0 1 pc := by
  cases pc <;> simp_all [PcOnce]

def ResOnce (t0 : Tmpl) (r : Res) : Prop := ∃ b f0, r = .tmpl t0 b f0

theorem overBound_one {n len : Nat} (hn : 1 ≤ n) (hl : len ≤ 1) : overBound n len = false := by
  simp only [overBound, decide_eq_false_iff_not, Nat.not_lt]
  calc len * thresholdDen ≤ 1 * thresholdDen := Nat.mul_le_mul_right _ hl
    _ ≤ n * thresholdDen := Nat.mul_le_mul_right _ hn
    _ ≤ n * thresholdDen + n * thresholdNum := Nat.le_add_right _ _

/-- programs of `get u` only: no step changes the files or the clock -/
theorem tstep_onlygets {cfg : Cfg} {tid : Tid} {sh sh' : Sh} {th th' : Thread} {u : Uri}
    (h : tstep cfg tid sh th = some (sh', th')) (hprog : ∀ op ∈ th.prog, op = .get u) :
    sh'.fs = sh.fs ∧ sh'.clock = sh.clock ∧ ∀ op ∈ th'.prog, op = .get u := by
  tstep_cases h
  case h_2 =>
    rename_i op rest hp
    have hop : op = .get u := hprog _ (by rw [hp]; simp)
    have hrest : ∀ o ∈ rest, o = .get u := fun o ho => hprog _ (by rw [hp]; simp [ho])
    subst hop
    startOp_cases h
    all_goals (try (cases ‹Op.get u = _›))
    all_goals (refine ⟨?_, ?_, hrest⟩ <;> simp)
  all_goals (
    first
    | exact ⟨by simp, by simp, hprog⟩
    | (refine ⟨rfl, rfl, ?_⟩
       rcases afterScan_cases th _ _ _ _ _ _ with ⟨_, hh⟩ | ⟨_, _, _, hh⟩ <;> rw [hh] <;> exact hprog))

theorem tstep_cons {cfg : Cfg} {tid : Tid} {sh sh' : Sh} {th th' : Thread}
    (h : tstep cfg tid sh th = some (sh', th')) :
    sh'.constructions = sh.constructions ∨
      (∃ u d, th.pc = .gC u d ∧ sh'.constructions = sh.constructions + 1) := by
  tstep_cases h
  case h_2 =>
    startOp_cases h
    all_goals (left; simp)
  all_goals (first | (left; simp; done) | (right; exact ⟨_, _, ‹_›, rfl⟩))

/-- how a step changes the collection -/
theorem tstep_coll {cfg : Cfg} {tid : Tid} {sh sh' : Sh} {th th' : Thread}
    (h : tstep cfg tid sh th = some (sh', th')) :
    (keys sh'.coll = keys sh.coll ∧ sh'.coll.length = sh.coll.length) ∨
    (∃ k, sh'.coll = remove sh.coll k ∧ (th.pc matches .gP .. | .gPx .. | .gP2 .. | .gMd ..)) ∨
    (∃ u d t n, th.pc = .gW u d t ∧ sh'.coll = setItem sh.coll u t n) := by
  tstep_cases h
  case h_2 =>
    startOp_cases h
    all_goals (left; simp)
  all_goals (rw [‹th.pc = _›])
  all_goals (
    first
    | (left; simp; done)
    | (right; left; exact ⟨_, rfl, by simp⟩)
    | (right; right; exact ⟨_, _, _, _, rfl, rfl⟩))

theorem setItem_keys_all {c : List Entry} {u : Uri} {t : Tmpl} {n : Nat} (h : ∀ e ∈ c, e.key = u) :
    (∀ e ∈ setItem c u t n, e.key = u) ∧ setItem c u t n ≠ [] ∧ (c.length ≤ 1 → (setItem c u t n).length ≤ 1) := by
  unfold setItem
  split
  · next hk =>
    refine ⟨?_, ?_, by simp⟩
    · intro e he
      obtain ⟨e0, he0, rfl⟩ := List.mem_map.1 he
      split <;> simp_all
    · obtain ⟨e, he, _⟩ := List.any_eq_true.1 hk
      intro hnil
      simp at hnil
      rw [hnil] at he
      simp at he
  · next hk =>
    have hc : c = [] := by
      cases c with
      | nil => rfl
      | cons e r =>
        exfalso
        apply hk
        simp [hasKey, h e (by simp)]
    subst hc
    simp

theorem keys_all_of_keys_eq {c c' : List Entry} {u : Uri} (hk : keys c' = keys c) (h : ∀ e ∈ c, e.key = u) :
    ∀ e ∈ c', e.key = u := by
  intro e he
  have : e.key ∈ keys c := by rw [← hk]; exact List.mem_map.2 ⟨e, he, rfl⟩
  obtain ⟨e0, he0, hk0⟩ := List.mem_map.1 this
  rw [← hk0]; exact h _ he0

structure OnceCtx (cfg : Cfg) (fs : FS) (clock : Nat) (u : Uri) (d0 : Dir) (f : File) : Prop where
  dir : d0 < cfg.ndirs
  file : fs d0 u = some f
  good : f.good = true
  first : ∀ d, d < d0 → fs d u = none
  cap : ∀ n, cfg.cap = some n → 1 ≤ n
  mtime : f.mtime ≤ clock

theorem resOnce_ret {t0 : Tmpl} {th : Thread} {r : Res} {c : Nat} (hres : ∀ r ∈ th.results, ResOnce t0 r)
    (hr : ResOnce t0 r) (hc : c = 1) :
    (∀ r' ∈ (th.ret r).results, ResOnce t0 r') ∧ ((th.ret r).results ≠ [] → c = 1) := by
  refine ⟨?_, fun _ => hc⟩
  intro r' hr'
  simp only [Thread.ret, List.mem_append, List.mem_singleton] at hr'
  rcases hr' with h | rfl
  · exact hres _ h
  · exact hr

theorem tstep_pcOnce {cfg : Cfg} {tid : Tid} {sh sh' : Sh} {th th' : Thread} {u : Uri} {d0 : Dir} {f : File}
    (hx : OnceCtx cfg sh.fs sh.clock u d0 f)
    (h : tstep cfg tid sh th = some (sh', th'))
    (hprog : ∀ op ∈ th.prog, op = .get u)
    (hpc : PcOnce u d0 ⟨0, u, d0, f.ver, sh.clock⟩ sh.constructions th.pc)
    (hres : ∀ r ∈ th.results, ResOnce ⟨0, u, d0, f.ver, sh.clock⟩ r)
    (hresc : th.results ≠ [] → sh.constructions = 1)
    (hvals : ∀ x ∈ vals sh.coll, x = ⟨0, u, d0, f.ver, sh.clock⟩)
    (hlen : sh.coll.length ≤ 1)
    (hcollc : sh.coll ≠ [] → sh.constructions = 1)
    (hC : ∀ u' d', th.pc = .gC u' d' → sh.constructions = 0) :
    PcOnce u d0 ⟨0, u, d0, f.ver, sh.clock⟩ sh'.constructions th'.pc ∧
      (∀ r ∈ th'.results, ResOnce ⟨0, u, d0, f.ver, sh.clock⟩ r) ∧
      (th'.results ≠ [] → sh'.constructions = 1) := by
  have hne : ∀ {t}, t ∈ vals sh.coll → sh.constructions = 1 := by
    intro t ht
    apply hcollc
    intro hnil
    rw [hnil] at ht
    simp [vals] at ht
  tstep_cases h
  case h_2 =>
    rename_i op rest hp
    have hop : op = .get u := hprog _ (by rw [hp]; simp)
    subst hop
    startOp_cases h
    all_goals (try (cases ‹Op.get u = _›))
    · -- hit, checks
      have hr := ‹(readColl _ _ _).fst = some _›
      have ht := hvals _ (readColl_some hr)
      subst ht
      exact ⟨⟨rfl, rfl, by simpa using hne (readColl_some hr)⟩, hres, by simpa [Thread.at] using hresc⟩
    · -- hit, no checks
      have hr := ‹(readColl _ _ _).fst = some _›
      have ht := hvals _ (readColl_some hr)
      subst ht
      refine ⟨trivial, ?_, fun _ => by simpa using hne (readColl_some hr)⟩
      intro r' hr'
      simp only [Thread.ret, List.mem_append, List.mem_singleton] at hr'
      rcases hr' with h | rfl
      · exact hres _ h
      · exact ⟨false, _, rfl⟩
    · -- miss, no directories
      have h0 := ‹cfg.ndirs = 0›
      exact absurd (h0 ▸ hx.dir) (Nat.not_lt_zero _)
    · -- miss
      exact ⟨⟨rfl, Nat.zero_le _⟩, hres, by simpa [Thread.at] using hresc⟩
  all_goals (rw [‹th.pc = _›] at hpc; simp only [PcOnce] at hpc)
  all_goals (try (exact hpc.elim))
  · -- gS, stat fails
    obtain ⟨rfl, rfl, hc1⟩ := hpc
    have h1 := ‹sh.fs _ _ = none›
    simp [hx.file] at h1
  · -- gS, fresh
    obtain ⟨rfl, rfl, hc1⟩ := hpc
    have := resOnce_ret (th := th) (r := th.okRes _ false) (c := sh.constructions) hres ⟨false, _, rfl⟩ hc1
    exact ⟨trivial, this.1, this.2⟩
  · -- gS, stale: impossible
    obtain ⟨rfl, rfl, hc1⟩ := hpc
    have h1 := ‹sh.fs _ _ = some _›
    simp only [hx.file, Option.some.injEq] at h1
    subst h1
    have hst := ‹¬ _ ≤ _›
    exact absurd hx.mtime hst
  · -- gF, found
    obtain ⟨rfl, hle⟩ := hpc
    have hsome := ‹(sh.fs _ _).isSome = true›
    rcases Nat.eq_or_lt_of_le hle with rfl | hlt
    · exact ⟨⟨rfl, rfl⟩, hres, hresc⟩
    · rw [hx.first _ hlt] at hsome; simp at hsome
  · -- gF, next directory
    obtain ⟨rfl, hle⟩ := hpc
    have hnone := ‹¬ (sh.fs _ _).isSome = true›
    rcases Nat.eq_or_lt_of_le hle with rfl | hlt
    · simp [hx.file] at hnone
    · refine ⟨?_, hres, hresc⟩
      simp only [at_pc, PcOnce]
      exact ⟨trivial, hlt⟩
  · -- gF, not found: impossible
    obtain ⟨rfl, hle⟩ := hpc
    have hnone := ‹¬ (sh.fs _ _).isSome = true›
    rcases Nat.eq_or_lt_of_le hle with rfl | hlt
    · simp [hx.file] at hnone
    · have h2 := ‹¬ _ + 1 < cfg.ndirs›
      exact absurd (Nat.lt_of_le_of_lt (Nat.succ_le_of_lt hlt) hx.dir) h2
  · -- gAcq
    exact ⟨hpc, hres, hresc⟩
  · -- gH2, hit
    obtain ⟨rfl, rfl⟩ := hpc
    have hr := ‹(readColl _ _ _).fst = some _›
    have ht := hvals _ (readColl_some hr)
    subst ht
    exact ⟨⟨rfl, rfl, by simpa using hne (readColl_some hr)⟩, hres, by simpa [Thread.at] using hresc⟩
  · -- gH2, miss
    exact ⟨hpc, hres, by simpa [Thread.at] using hresc⟩
  · -- gC, file vanished: impossible
    obtain ⟨rfl, rfl⟩ := hpc
    have h1 := ‹sh.fs _ _ = none›
    simp [hx.file] at h1
  · -- gC, compiles
    obtain ⟨rfl, rfl⟩ := hpc
    have h1 := ‹sh.fs _ _ = some _›
    simp only [hx.file, Option.some.injEq] at h1
    subst h1
    have hc0 := hC _ _ ‹_›
    refine ⟨⟨rfl, rfl, by rw [hc0], by simp [hc0]⟩, hres, fun _ => by simp [hc0]⟩
  · -- gC, does not compile: impossible
    obtain ⟨rfl, rfl⟩ := hpc
    have h1 := ‹sh.fs _ _ = some _›
    simp only [hx.file, Option.some.injEq] at h1
    subst h1
    exact absurd hx.good ‹_›
  · -- gW, plain dict
    obtain ⟨rfl, rfl, rfl, hc1⟩ := hpc
    exact ⟨⟨⟨false, _, rfl⟩, hc1⟩, hres, hresc⟩
  · -- gW, LRU, key present
    obtain ⟨rfl, rfl, rfl, hc1⟩ := hpc
    exact ⟨⟨⟨false, _, rfl⟩, hc1⟩, hres, hresc⟩
  · -- gW, LRU, new key
    obtain ⟨rfl, rfl, rfl, hc1⟩ := hpc
    exact ⟨⟨⟨false, _, rfl⟩, hc1⟩, hres, hresc⟩
  · -- gM, plain dict
    exact ⟨hpc, hres, hresc⟩
  · -- gM, over the bound, nothing to delete: impossible
    have hover := ‹overBound _ _ = true›
    rw [overBound_one (hx.cap _ ‹_›) hlen] at hover
    simp at hover
  · -- gM, over the bound: impossible
    have hover := ‹overBound _ _ = true›
    rw [overBound_one (hx.cap _ ‹_›) hlen] at hover
    simp at hover
  · -- gM, within the bound
    exact ⟨hpc, hres, hresc⟩
  · -- gRel
    have := resOnce_ret (th := th) (c := sh.constructions) hres hpc.1 hpc.2
    exact ⟨trivial, this.1, this.2⟩
  · -- gRelS, filesystem_checks: on to `_check`
    exact ⟨hpc, hres, hresc⟩
  · -- gRelS, no checks: return the second-chance hit
    obtain ⟨rfl, rfl, hc1⟩ := hpc
    have := resOnce_ret (th := th) (r := th.okRes _ true) (c := sh.constructions) hres ⟨true, _, rfl⟩ hc1
    exact ⟨trivial, this.1, this.2⟩

/-- a thread enters `gC` only from a missed second-chance read, `gW` only from a successful construction -/
theorem tstep_to_CW {cfg : Cfg} {tid : Tid} {sh sh' : Sh} {th th' : Thread}
    (h : tstep cfg tid sh th = some (sh', th')) :
    (∀ u d, th'.pc = .gC u d → th.pc = .gH2 u d ∧ (readColl cfg sh u).1 = none ∧ sh'.coll = (readColl cfg sh u).2.coll) ∧
    (∀ u d t, th'.pc = .gW u d t → th.pc = .gC u d ∧ sh'.coll = sh.coll) := by
  tstep_cases h
  case h_2 =>
    startOp_cases h
    all_goals (first | (constructor <;> (intros; simp_all; done)) | skip)
    all_goals (
      rcases afterScan_cases _ _ _ _ _ _ _ with ⟨_, hh⟩ | ⟨_, _, _, hh⟩ <;> rw [hh] <;>
        constructor <;> (intro _ _; simp))
  all_goals (first | (constructor <;> (intros; simp_all; done)) | skip)
  all_goals (
    first
    | (constructor <;> (intros; split at * <;> simp_all; done))
    | (rcases afterScan_cases _ _ _ _ _ _ _ with ⟨_, hh⟩ | ⟨_, _, _, hh⟩ <;> rw [hh] <;>
        constructor <;> (intro _ _; simp)))

theorem tstep_gC_pc {cfg : Cfg} {tid : Tid} {sh sh' : Sh} {th th' : Thread} {u d : Nat} {f : File}
    (hp : th.pc = .gC u d) (hf : sh.fs d u = some f) (hg : f.good = true)
    (h : tstep cfg tid sh th = some (sh', th')) :
    th'.pc = .gW u d ⟨sh.constructions, u, d, f.ver, sh.clock⟩ ∧ sh'.mutex = sh.mutex := by
  unfold tstep at h
  simp [hp, hf, hg] at h
  rw [← h.1, ← h.2]
  exact ⟨rfl, rfl⟩

theorem tstep_gW_coll {cfg : Cfg} {tid : Tid} {sh sh' : Sh} {th th' : Thread} {u d : Nat} {t : Tmpl}
    (hp : th.pc = .gW u d t) (h : tstep cfg tid sh th = some (sh', th')) :
    ∃ n, sh'.coll = setItem sh.coll u t n := by
  unfold tstep at h
  rw [hp] at h
  simp only at h
  split at h
  · simp at h; exact ⟨0, by rw [← h.1]⟩
  · simp at h; exact ⟨sh.lruClock, by rw [← h.1]⟩

/-- the invariant of a first-request system (`t0` = the one template that gets built) -/
structure OnceInv (cfg0 : Cfg) (fs0 : FS) (clock0 : Nat) (u : Uri) (d0 : Dir) (f : File) (s : Sys) : Prop where
  cfg : s.cfg = cfg0
  fs : s.sh.fs = fs0
  clock : s.sh.clock = clock0
  mutex : MutexInv s
  prog : ∀ t, ∀ op ∈ (s.threads t).prog, op = .get u
  pc : ∀ t, PcOnce u d0 ⟨0, u, d0, f.ver, clock0⟩ s.sh.constructions (s.threads t).pc
  res : ∀ t, ∀ r ∈ (s.threads t).results, ResOnce ⟨0, u, d0, f.ver, clock0⟩ r
  resc : ∀ t, (s.threads t).results ≠ [] → s.sh.constructions = 1
  keys : ∀ e ∈ s.sh.coll, e.key = u
  all : AllT (fun x => x = ⟨0, u, d0, f.ver, clock0⟩) s
  len : s.sh.coll.length ≤ 1
  cons : s.sh.constructions ≤ 1
  coll1 : s.sh.coll ≠ [] → s.sh.constructions = 1
  pend : s.sh.constructions = 1 →
    s.sh.coll ≠ [] ∨ ∃ h d t, s.sh.mutex = some h ∧ (s.threads h).pc = .gW u d t
  holderCW : ∀ h, s.sh.mutex = some h →
    ((∃ u' d', (s.threads h).pc = .gC u' d') ∨ (∃ u' d' t', (s.threads h).pc = .gW u' d' t')) → s.sh.coll = []

theorem onceInv_init {s : Sys} {u : Uri} {d0 : Dir} {f : File} (h : Init s)
    (hp : ∀ t, ∀ op ∈ (s.threads t).prog, op = .get u) :
    OnceInv s.cfg s.sh.fs s.sh.clock u d0 f s where
  cfg := rfl
  fs := rfl
  clock := rfl
  mutex := mutexInv_init h
  prog := hp
  pc := fun t => by rw [(h.threads t).1]; trivial
  res := fun t => by rw [(h.threads t).2.1]; simp
  resc := fun t => by rw [(h.threads t).2.1]; simp
  keys := by simp [h.coll]
  all := ⟨by simp [h.coll, vals], fun t => ⟨by simp [(h.threads t).1], by simp [(h.threads t).2.1],
    by simp [(h.threads t).2.2.1]⟩⟩
  len := by simp [h.coll]
  cons := by simp [h.cons]
  coll1 := by simp [h.coll]
  pend := by simp [h.cons]
  holderCW := by simp [h.mutex]

theorem length_eq_zero_of_keys {c : List Entry} {u : Uri} (hk : ∀ e ∈ c, e.key = u) (hu : u ∉ keys c) : c = [] := by
  cases c with
  | nil => rfl
  | cons e r =>
    exfalso
    apply hu
    exact List.mem_map.2 ⟨e, by simp, hk e (by simp)⟩

theorem onceInv_step {cfg0 : Cfg} {fs0 : FS} {clock0 : Nat} {u : Uri} {d0 : Dir} {f : File}
    (hx : OnceCtx cfg0 fs0 clock0 u d0 f) {s s' : Sys} {tid : Tid}
    (hi : OnceInv cfg0 fs0 clock0 u d0 f s) (h : step s tid = some s') :
    OnceInv cfg0 fs0 clock0 u d0 f s' := by
  have hmx' := mutexInv_step hi.mutex h
  obtain ⟨sh, th, ht, rfl⟩ := step_iff.1 h
  have hcfg := hi.cfg
  have hfs := hi.fs
  have hclk := hi.clock
  subst hcfg; subst hfs; subst hclk
  -- the stepping thread, when it is about to construct, is the first to do so
  have hself := hi.mutex tid
  have hC : ∀ u' d', (s.threads tid).pc = .gC u' d' → s.sh.constructions = 0 := by
    intro u' d' hp
    have hm : s.sh.mutex = some tid := hself.1 (by rw [hp]; rfl)
    have hc0 := hi.holderCW tid hm (Or.inl ⟨_, _, hp⟩)
    rcases Nat.eq_zero_or_pos s.sh.constructions with h0 | hpos
    · exact h0
    · exfalso
      have h1 : s.sh.constructions = 1 := by have := hi.cons; omega
      rcases hi.pend h1 with hne | ⟨h', d, t, hm', hp'⟩
      · exact hne hc0
      · rw [hm] at hm'
        cases hm'
        rw [hp] at hp'
        cases hp'
  obtain ⟨hpc', hres', hresc'⟩ := tstep_pcOnce hx ht (hi.prog tid) (hi.pc tid) (hi.res tid) (hi.resc tid)
    hi.all.1 hi.len hi.coll1 hC
  obtain ⟨hfs', hclk', hprog'⟩ := tstep_onlygets ht (hi.prog tid)
  have hpcT := hi.pc tid
  -- templates
  have hall : AllT (fun x => x = ⟨0, u, d0, f.ver, s.sh.clock⟩) (s.set tid sh th) := by
    refine step_allT (P := fun x => x = ⟨0, u, d0, f.ver, s.sh.clock⟩) (fun _ hx' => hx') ?_ h hi.all
    intro f' u' d' hp hf' _
    have := hC _ _ hp
    rw [hp] at hpcT
    obtain ⟨rfl, rfl⟩ := hpcT
    rw [hx.file] at hf'
    cases hf'
    simp [this]
  have hcons := tstep_cons ht
  have hcoll := tstep_coll ht
  have hmut := tstep_mutex ht
  have hto := tstep_to_CW ht
  -- facts about the new collection and the construction counter
  have hcollfacts : (∀ e ∈ sh.coll, e.key = u) ∧ sh.coll.length ≤ 1 ∧ (sh.coll ≠ [] → sh.constructions = 1) ∧
      (s.sh.coll ≠ [] → sh.coll ≠ []) ∧
      ((s.threads tid).pc.holding = false → sh.coll.length = s.sh.coll.length) := by
    rcases hcoll with ⟨hk, hl⟩ | ⟨k, _, hm⟩ | ⟨u', d', t', n, hp, hc⟩
    · refine ⟨keys_all_of_keys_eq hk hi.keys, by rw [hl]; exact hi.len, ?_, ?_, fun _ => hl⟩
      · intro hne
        have hne0 : s.sh.coll ≠ [] := by
          intro h0; apply hne; rw [h0] at hl; simpa using hl
        have h1 := hi.coll1 hne0
        rcases hcons with e | ⟨u', d', hp, _⟩
        · rw [e]; exact h1
        · have := hC _ _ hp; omega
      · intro hne h0; apply hne; rw [h0] at hl; simpa using hl.symm
    · exfalso
      revert hm hpcT
      cases (s.threads tid).pc <;> simp [PcOnce]
    · rw [hp] at hpcT
      obtain ⟨rfl, rfl, rfl, hc1⟩ := hpcT
      obtain ⟨a, b, c⟩ := setItem_keys_all (u := u') (t := ⟨0, u', d', f.ver, s.sh.clock⟩) (n := n) hi.keys
      rw [hc]
      refine ⟨a, c hi.len, ?_, fun _ => b, ?_⟩
      · intro _
        rcases hcons with e | ⟨u'', d'', hp', _⟩
        · rw [e]; exact hc1
        · rw [hp] at hp'; cases hp'
      · intro hh; rw [hp] at hh; simp at hh
  obtain ⟨hkeys', hlen', hcoll1', hne', hlenNH⟩ := hcollfacts
  have hcons' : sh.constructions ≤ 1 := by
    rcases hcons with e | ⟨u', d', hp, e⟩
    · rw [e]; exact hi.cons
    · have := hC _ _ hp; omega
  refine ⟨rfl, hfs', hclk', hmx', ?_, ?_, ?_, ?_, hkeys', hall, hlen', hcons', hcoll1', ?_, ?_⟩
  · intro t; rw [set_threads]; split
    · exact hprog'
    · exact hi.prog t
  · intro t; rw [set_threads]; split
    · exact hpc'
    · simp only [set_sh]
      rcases hcons with e | ⟨u', d', hp, e⟩
      · rw [e]; exact hi.pc t
      · rw [e, hC _ _ hp]; exact (hi.pc t).one
  · intro t; rw [set_threads]; split
    · exact hres'
    · exact hi.res t
  · intro t; rw [set_threads]; split
    · exact hresc'
    · intro hne
      have h1 := hi.resc t hne
      simp only [set_sh]
      rcases hcons with e | ⟨u', d', hp, e⟩
      · rw [e]; exact h1
      · have := hC _ _ hp; omega
  · -- pend
    intro hc1
    simp only [set_sh] at hc1 ⊢
    rcases hcons with e | ⟨u', d', hp, e⟩
    · rw [e] at hc1
      rcases hi.pend hc1 with hne | ⟨h', d, t, hm, hp⟩
      · exact Or.inl (hne' hne)
      · by_cases hh : h' = tid
        · subst hh
          obtain ⟨n, hc⟩ := tstep_gW_coll hp ht
          left; rw [hc]
          exact (setItem_keys_all (t := t) (n := n) hi.keys).2.1
        · right
          refine ⟨h', d, t, ?_, by rw [set_threads_other _ _ _ hh]; exact hp⟩
          have hnh : (s.threads tid).pc.holding = false := by
            cases hb : (s.threads tid).pc.holding with
            | false => rfl
            | true => have := hself.1 hb; rw [hm] at this; cases this; exact absurd rfl hh
          rcases hmut with ⟨_, _, c⟩ | ⟨_, b, _⟩ | ⟨a, _⟩ | ⟨a, _⟩
          · rw [c]; exact hm
          · rw [hm] at b; cases b
          · rw [hnh] at a; cases a
          · rw [hnh] at a; cases a
    · -- the construction step itself
      right
      have hpT := hi.pc tid
      rw [hp] at hpT
      obtain ⟨rfl, rfl⟩ := hpT
      obtain ⟨hpc2, hm2⟩ := tstep_gC_pc hp hx.file hx.good ht
      have hm : s.sh.mutex = some tid := hself.1 (by rw [hp]; rfl)
      exact ⟨tid, _, _, by rw [hm2]; exact hm, by rw [set_threads_self]; exact hpc2⟩
  · -- holderCW
    intro h' hm' hcw
    simp only [set_sh] at hm' ⊢
    by_cases hh : h' = tid
    · subst hh
      rw [set_threads_self] at hcw
      rcases hcw with ⟨u', d', hp'⟩ | ⟨u', d', t', hp'⟩
      · obtain ⟨hp, hnone, hc⟩ := hto.1 _ _ hp'
        have hpT := hi.pc h'
        rw [hp] at hpT
        obtain ⟨rfl, rfl⟩ := hpT
        rw [hc]
        have : s.sh.coll = [] := length_eq_zero_of_keys hi.keys (readColl_none hnone)
        have hl := readColl_len s.cfg s.sh u'
        rw [this] at hl
        exact List.eq_nil_of_length_eq_zero (by simpa using hl)
      · obtain ⟨hp, hc⟩ := hto.2 _ _ _ hp'
        rw [hc]
        exact hi.holderCW h' (hself.1 (by rw [hp]; rfl)) (Or.inl ⟨_, _, hp⟩)
    · rw [set_threads_other _ _ _ hh] at hcw
      have hnh : (s.threads tid).pc.holding = false ∧ s.sh.mutex = some h' := by
        rcases hmut with ⟨a, _, c⟩ | ⟨_, _, c, _⟩ | ⟨a, _, c⟩ | ⟨_, _, c⟩
        · exact ⟨a, by rw [← c]; exact hm'⟩
        · rw [c] at hm'; cases hm'; exact absurd rfl hh
        · have := hself.1 a; rw [c, this] at hm'; cases hm'; exact absurd rfl hh
        · rw [c] at hm'; cases hm'
      have h0 := hi.holderCW h' hnh.2 hcw
      have hl := hlenNH hnh.1
      rw [h0] at hl
      simpa using hl

theorem onceInv_reachable {s0 s : Sys} {u : Uri} {d0 : Dir} {f : File} (h0 : Init s0)
    (hp : ∀ t, ∀ op ∈ (s0.threads t).prog, op = .get u)
    (hx : OnceCtx s0.cfg s0.sh.fs s0.sh.clock u d0 f) (hr : Reachable s0 s) :
    OnceInv s0.cfg s0.sh.fs s0.sh.clock u d0 f s :=
  reachable_induction hr (onceInv_init h0 hp) (fun _ _ _ ih h => onceInv_step hx ih h)

end MakoModel.Conc
