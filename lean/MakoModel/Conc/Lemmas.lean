import MakoModel.Conc.Model
/-!
Helper lemmas for the C16 theorems: case analysis of `tstep`/`startOp`, frame facts of the collection
operations, the induction principle over schedules (`reachable_induction`), the mutex invariant (`MutexInv`: a thread
is at a critical-section pc, `gRelS` included, iff it is the recorded holder) and when a thread has no step.
-/
namespace MakoModel.Conc

/-- split `h : tstep cfg tid sh th = some (sh', th')` into its branches and substitute the results -/
macro "tstep_cases" h:ident : tactic => `(tactic| (
  unfold tstep at $h:ident
  split at $h:ident
  all_goals (repeat' split at $h:ident)
  all_goals (simp only [Option.some.injEq, Prod.mk.injEq, reduceCtorEq] at $h:ident)
  all_goals (try (obtain ⟨h1, h2⟩ := $h:ident; subst h1; subst h2))))

/-- the same for `h : startOp cfg sh th op = (sh', th')` -/
macro "startOp_cases" h:ident : tactic => `(tactic| (
  unfold startOp at $h:ident
  split at $h:ident
  all_goals (repeat' split at $h:ident)
  all_goals (simp only [Prod.mk.injEq] at $h:ident)
  all_goals (try (obtain ⟨h1, h2⟩ := $h:ident; subst h1; subst h2))))

/-! ## `holding` / `inLru` on constructors -/

@[simp] theorem holding_idle : (Pc.idle).holding = false := rfl
@[simp] theorem inLru_idle : (Pc.idle).inLru = false := rfl
@[simp] theorem holding_gS {u t} : (Pc.gS u t).holding = false := rfl
@[simp] theorem inLru_gS {u t} : (Pc.gS u t).inLru = false := rfl
@[simp] theorem holding_gP {u t} : (Pc.gP u t).holding = false := rfl
@[simp] theorem inLru_gP {u t} : (Pc.gP u t).inLru = false := rfl
@[simp] theorem holding_gPx {u} : (Pc.gPx u).holding = false := rfl
@[simp] theorem inLru_gPx {u} : (Pc.gPx u).inLru = false := rfl
@[simp] theorem holding_gF {u d} : (Pc.gF u d).holding = false := rfl
@[simp] theorem inLru_gF {u d} : (Pc.gF u d).inLru = false := rfl
@[simp] theorem holding_gAcq {u d} : (Pc.gAcq u d).holding = false := rfl
@[simp] theorem inLru_gAcq {u d} : (Pc.gAcq u d).inLru = false := rfl
@[simp] theorem holding_gH2 {u d} : (Pc.gH2 u d).holding = true := rfl
@[simp] theorem inLru_gH2 {u d} : (Pc.gH2 u d).inLru = false := rfl
@[simp] theorem holding_gC {u d} : (Pc.gC u d).holding = true := rfl
@[simp] theorem inLru_gC {u d} : (Pc.gC u d).inLru = false := rfl
@[simp] theorem holding_gW {u d t} : (Pc.gW u d t).holding = true := rfl
@[simp] theorem inLru_gW {u d t} : (Pc.gW u d t).inLru = false := rfl
@[simp] theorem holding_gM {r} : (Pc.gM r).holding = true := rfl
@[simp] theorem inLru_gM {r} : (Pc.gM r).inLru = true := rfl
@[simp] theorem holding_gMd {r l} : (Pc.gMd r l).holding = true := rfl
@[simp] theorem inLru_gMd {r l} : (Pc.gMd r l).inLru = true := rfl
@[simp] theorem holding_gP2 {u} : (Pc.gP2 u).holding = true := rfl
@[simp] theorem inLru_gP2 {u} : (Pc.gP2 u).inLru = false := rfl
@[simp] theorem holding_gRel {r} : (Pc.gRel r).holding = true := rfl
@[simp] theorem inLru_gRel {r} : (Pc.gRel r).inLru = false := rfl
@[simp] theorem holding_rK {t c k l u} : (Pc.rK t c k l u).holding = false := rfl
@[simp] theorem inLru_rK {t c k l u} : (Pc.rK t c k l u).inLru = false := rfl
@[simp] theorem holding_gRelS {u t} : (Pc.gRelS u t).holding = true := rfl
@[simp] theorem inLru_gRelS {u t} : (Pc.gRelS u t).inLru = false := rfl
@[simp] theorem holding_aS {k} : (Pc.aS k).holding = false := rfl
@[simp] theorem inLru_aS {k} : (Pc.aS k).inLru = false := rfl
@[simp] theorem at_pc (th : Thread) (pc : Pc) : (th.at pc).pc = pc := rfl
@[simp] theorem ret_pc (th : Thread) (r : Res) : (th.ret r).pc = .idle := rfl

/-! ## schedules -/

theorem step_iff {s s' : Sys} {tid : Tid} :
    step s tid = some s' ↔ ∃ sh th, tstep s.cfg tid s.sh (s.threads tid) = some (sh, th) ∧ s' = s.set tid sh th := by
  unfold step
  split
  · simp_all
  · next sh th h =>
    simp only [h, Option.some.injEq, Prod.mk.injEq]
    constructor
    · intro e; exact ⟨sh, th, ⟨rfl, rfl⟩, e.symm⟩
    · rintro ⟨sh1, th1, ⟨rfl, rfl⟩, e⟩; exact e.symm

@[simp] theorem set_cfg (s : Sys) (tid : Tid) (sh : Sh) (th : Thread) : (s.set tid sh th).cfg = s.cfg := rfl
@[simp] theorem set_sh (s : Sys) (tid : Tid) (sh : Sh) (th : Thread) : (s.set tid sh th).sh = sh := rfl
@[simp] theorem set_threads_self (s : Sys) (tid : Tid) (sh : Sh) (th : Thread) :
    (s.set tid sh th).threads tid = th := by simp [Sys.set]
theorem set_threads_other (s : Sys) {tid t : Tid} (sh : Sh) (th : Thread) (h : t ≠ tid) :
    (s.set tid sh th).threads t = s.threads t := by simp [Sys.set, h]
theorem set_threads (s : Sys) (tid t : Tid) (sh : Sh) (th : Thread) :
    (s.set tid sh th).threads t = if t = tid then th else s.threads t := rfl

theorem step_cfg {s s' : Sys} {tid : Tid} (h : step s tid = some s') : s'.cfg = s.cfg := by
  obtain ⟨sh, th, _, rfl⟩ := step_iff.1 h; rfl

/-- a step of `tid` leaves every other thread's record (program counter, locals, per-render context,
    results) untouched -/
theorem step_threads_other {s s' : Sys} {tid t : Tid} (h : step s tid = some s') (ht : t ≠ tid) :
    s'.threads t = s.threads t := by
  obtain ⟨sh, th, _, rfl⟩ := step_iff.1 h; exact set_threads_other _ _ _ ht

theorem run_append (a b : List Tid) (s : Sys) : run (a ++ b) s = run b (run a s) := by
  induction a generalizing s with
  | nil => rfl
  | cons t r ih => simp [run, ih]

/-- induction over ALL schedules: a property of the initial state that every step preserves holds in every
    reachable state -/
theorem reachable_induction {P : Sys → Prop} {s0 s : Sys} (hr : Reachable s0 s) (h0 : P s0)
    (hs : ∀ s tid s', P s → step s tid = some s' → P s') : P s := by
  obtain ⟨sched, rfl⟩ := hr
  induction sched generalizing s0 with
  | nil => exact h0
  | cons t r ih =>
    simp only [run]
    apply ih
    cases h : step s0 t with
    | none => simpa using h0
    | some s1 => simpa using hs _ _ _ h0 h

theorem reachable_cfg {s0 s : Sys} (hr : Reachable s0 s) : s.cfg = s0.cfg :=
  reachable_induction (P := fun s => s.cfg = s0.cfg) hr rfl (fun _ _ _ ih h => (step_cfg h).trans ih)

/-! ## the collection -/

@[simp] theorem readColl_mutex (cfg : Cfg) (sh : Sh) (u : Uri) : (readColl cfg sh u).2.mutex = sh.mutex := by
  unfold readColl; split <;> (try split) <;> rfl
@[simp] theorem readColl_fs (cfg : Cfg) (sh : Sh) (u : Uri) : (readColl cfg sh u).2.fs = sh.fs := by
  unfold readColl; split <;> (try split) <;> rfl
@[simp] theorem readColl_clock (cfg : Cfg) (sh : Sh) (u : Uri) : (readColl cfg sh u).2.clock = sh.clock := by
  unfold readColl; split <;> (try split) <;> rfl
@[simp] theorem readColl_cons (cfg : Cfg) (sh : Sh) (u : Uri) :
    (readColl cfg sh u).2.constructions = sh.constructions := by
  unfold readColl; split <;> (try split) <;> rfl
@[simp] theorem readColl_memo (cfg : Cfg) (sh : Sh) (u : Uri) : (readColl cfg sh u).2.memo = sh.memo := by
  unfold readColl; split <;> (try split) <;> rfl
@[simp] theorem readColl_built (cfg : Cfg) (sh : Sh) (u : Uri) : (readColl cfg sh u).2.built = sh.built := by
  unfold readColl; split <;> (try split) <;> rfl

@[simp] theorem readColl_ucache (cfg : Cfg) (sh : Sh) (u : Uri) : (readColl cfg sh u).2.ucache = sh.ucache := by
  unfold readColl; split <;> (try split) <;> rfl

/-- the templates held by the collection -/
def vals (c : List Entry) : List Tmpl := c.map (·.val)
def keys (c : List Entry) : List Uri := c.map (·.key)

@[simp] theorem touch_length (c : List Entry) (u : Uri) (n : Nat) : (touch c u n).length = c.length := by
  simp [touch]

@[simp] theorem touch_vals (c : List Entry) (u : Uri) (n : Nat) : vals (touch c u n) = vals c := by
  simp only [vals, touch, List.map_map]
  apply List.map_congr_left
  intro e _; simp only [Function.comp]; split <;> rfl

@[simp] theorem touch_keys (c : List Entry) (u : Uri) (n : Nat) : keys (touch c u n) = keys c := by
  simp only [keys, touch, List.map_map]
  apply List.map_congr_left
  intro e _; simp only [Function.comp]; split <;> rfl

@[simp] theorem readColl_len (cfg : Cfg) (sh : Sh) (u : Uri) :
    (readColl cfg sh u).2.coll.length = sh.coll.length := by
  unfold readColl; split <;> (try split) <;> simp

@[simp] theorem readColl_vals (cfg : Cfg) (sh : Sh) (u : Uri) : vals (readColl cfg sh u).2.coll = vals sh.coll := by
  unfold readColl; split <;> (try split) <;> simp

@[simp] theorem readColl_keys (cfg : Cfg) (sh : Sh) (u : Uri) : keys (readColl cfg sh u).2.coll = keys sh.coll := by
  unfold readColl; split <;> (try split) <;> simp

theorem readColl_fst (cfg : Cfg) (sh : Sh) (u : Uri) :
    (readColl cfg sh u).1 = (find sh.coll u).map (·.val) := by
  unfold readColl; split <;> (try split) <;> simp_all

theorem find_some {c : List Entry} {u : Uri} {e : Entry} (h : find c u = some e) : e ∈ c ∧ e.key = u := by
  unfold find at h
  exact ⟨List.mem_of_find?_eq_some h, by simpa using List.find?_some h⟩

theorem find_none {c : List Entry} {u : Uri} (h : find c u = none) : ∀ e ∈ c, e.key ≠ u := by
  unfold find at h
  intro e he
  have := List.find?_eq_none.1 h e he
  simpa using this

theorem readColl_some {cfg : Cfg} {sh : Sh} {u : Uri} {t : Tmpl} (h : (readColl cfg sh u).1 = some t) :
    t ∈ vals sh.coll := by
  rw [readColl_fst] at h
  cases hf : find sh.coll u with
  | none => simp [hf] at h
  | some e =>
    simp [hf] at h
    exact List.mem_map.2 ⟨e, (find_some hf).1, h⟩

theorem readColl_none {cfg : Cfg} {sh : Sh} {u : Uri} (h : (readColl cfg sh u).1 = none) :
    u ∉ keys sh.coll := by
  rw [readColl_fst] at h
  cases hf : find sh.coll u with
  | none =>
    intro hm
    obtain ⟨e, he, hk⟩ := List.mem_map.1 hm
    exact find_none hf e he hk
  | some e => simp [hf] at h

theorem remove_sublist (c : List Entry) (u : Uri) : (remove c u).Sublist c := List.filter_sublist

theorem mem_vals_remove {c : List Entry} {u : Uri} {t : Tmpl} (h : t ∈ vals (remove c u)) : t ∈ vals c :=
  ((remove_sublist c u).map _).subset h

theorem remove_length_le (c : List Entry) (u : Uri) : (remove c u).length ≤ c.length :=
  (remove_sublist c u).length_le

theorem hasKey_iff {c : List Entry} {u : Uri} : hasKey c u = true ↔ u ∈ keys c := by
  simp [hasKey, keys]

theorem remove_length_lt {c : List Entry} {u : Uri} (h : hasKey c u = true) : (remove c u).length < c.length := by
  obtain ⟨e, he, hk⟩ := List.mem_map.1 (hasKey_iff.1 h)
  unfold remove
  apply List.length_filter_lt_length_iff_exists.2
  exact ⟨e, he, by simp [hk]⟩

theorem mem_vals_setItem {c : List Entry} {u : Uri} {t x : Tmpl} {n : Nat} (h : x ∈ vals (setItem c u t n)) :
    x = t ∨ x ∈ vals c := by
  unfold setItem at h
  split at h
  · obtain ⟨e, he, rfl⟩ := List.mem_map.1 h
    obtain ⟨e0, he0, rfl⟩ := List.mem_map.1 he
    by_cases hk : e0.key = u
    · simp [hk]
    · right; simp [hk]; exact List.mem_map.2 ⟨e0, he0, rfl⟩
  · simp [vals] at h
    rcases h with ⟨e, he, rfl⟩ | rfl
    · right; exact List.mem_map.2 ⟨e, he, rfl⟩
    · left; rfl

theorem setItem_length_le (c : List Entry) (u : Uri) (t : Tmpl) (n : Nat) :
    (setItem c u t n).length ≤ c.length + 1 := by
  unfold setItem; split <;> simp

/-! ## renders -/

theorem renderScan_cases (memo : Nat → Nat → Option Nat) (t : Tmpl) (ctx : Nat) (kinds todo used : List Nat) :
    (∃ u, renderScan memo t ctx kinds todo used = .inr (.rendered t.id t.ver ctx kinds u)) ∨
    (∃ k rest u, renderScan memo t ctx kinds todo used = .inl (.rK t ctx kinds (k :: rest) u)) := by
  induction todo generalizing used with
  | nil => left; exact ⟨_, rfl⟩
  | cons k rest ih =>
    unfold renderScan
    split
    · exact ih _
    · right; exact ⟨_, _, _, rfl⟩

theorem afterScan_cases (th : Thread) (memo : Nat → Nat → Option Nat) (t : Tmpl) (ctx : Nat)
    (kinds todo used : List Nat) :
    (∃ u, th.afterScan (renderScan memo t ctx kinds todo used) = th.ret (.rendered t.id t.ver ctx kinds u)) ∨
    (∃ k rest u, th.afterScan (renderScan memo t ctx kinds todo used) = th.at (.rK t ctx kinds (k :: rest) u)) := by
  rcases renderScan_cases memo t ctx kinds todo used with ⟨u, h⟩ | ⟨k, rest, u, h⟩
  · left; exact ⟨u, by rw [h]; rfl⟩
  · right; exact ⟨k, rest, u, by rw [h]; rfl⟩

@[simp] theorem afterScan_holding (th : Thread) (memo : Nat → Nat → Option Nat) (t : Tmpl) (ctx : Nat)
    (kinds todo used : List Nat) :
    (th.afterScan (renderScan memo t ctx kinds todo used)).pc.holding = false := by
  rcases afterScan_cases th memo t ctx kinds todo used with ⟨u, h⟩ | ⟨k, rest, u, h⟩ <;> rw [h] <;> rfl

@[simp] theorem afterScan_inLru (th : Thread) (memo : Nat → Nat → Option Nat) (t : Tmpl) (ctx : Nat)
    (kinds todo used : List Nat) :
    (th.afterScan (renderScan memo t ctx kinds todo used)).pc.inLru = false := by
  rcases afterScan_cases th memo t ctx kinds todo used with ⟨u, h⟩ | ⟨k, rest, u, h⟩ <;> rw [h] <;> rfl

/-! ## the mutex -/

/-- a thread is inside `_load`'s critical section iff it is the one recorded as the mutex holder -/
def MutexInv (s : Sys) : Prop := ∀ t, (s.threads t).pc.holding = true ↔ s.sh.mutex = some t

/-- the pc-level shape of a step w.r.t. the mutex -/
theorem tstep_mutex {cfg : Cfg} {tid : Tid} {sh sh' : Sh} {th th' : Thread}
    (h : tstep cfg tid sh th = some (sh', th')) :
    (th.pc.holding = false ∧ th'.pc.holding = false ∧ sh'.mutex = sh.mutex) ∨
    (th.pc.holding = false ∧ sh.mutex = none ∧ sh'.mutex = some tid ∧ th'.pc.holding = true) ∨
    (th.pc.holding = true ∧ th'.pc.holding = true ∧ sh'.mutex = sh.mutex) ∨
    (th.pc.holding = true ∧ th'.pc.holding = false ∧ sh'.mutex = none) := by
  tstep_cases h
  case h_2 =>
    startOp_cases h
    all_goals (simp_all)
  all_goals (simp_all)

theorem mutexInv_init {s : Sys} (h : Init s) : MutexInv s := by
  intro t; simp [(h.threads t).1, h.mutex]

theorem mutexInv_step {s s' : Sys} {tid : Tid} (hi : MutexInv s) (h : step s tid = some s') : MutexInv s' := by
  obtain ⟨sh, th, ht, rfl⟩ := step_iff.1 h
  have hm := tstep_mutex ht
  have hself := hi tid
  intro t
  simp only [set_threads, set_sh]
  by_cases htt : t = tid
  · subst htt
    simp only [if_true]
    rcases hm with ⟨a, b, c⟩ | ⟨a, b, c, d⟩ | ⟨a, b, c⟩ | ⟨a, b, c⟩
    · rw [c, b]; rw [a] at hself; exact hself
    · simp [c, d]
    · rw [c, b]; rw [a] at hself; exact hself
    · simp [b, c]
  · simp only [htt, if_false]
    have ho := hi t
    rcases hm with ⟨a, b, c⟩ | ⟨a, b, c, d⟩ | ⟨a, b, c⟩ | ⟨a, b, c⟩
    · rw [c]; exact ho
    · rw [c]; rw [b] at ho
      constructor
      · intro x; have := ho.1 x; simp at this
      · intro x; simp at x; exact absurd x.symm htt
    · rw [c]; exact ho
    · rw [c]
      have hs : s.sh.mutex = some tid := hself.1 a
      rw [hs] at ho
      constructor
      · intro x; have := ho.1 x; simp at this; exact absurd this.symm htt
      · intro x; simp at x

theorem mutexInv_reachable {s0 s : Sys} (h0 : Init s0) (hr : Reachable s0 s) : MutexInv s :=
  reachable_induction hr (mutexInv_init h0) (fun _ _ _ ih h => mutexInv_step ih h)

/-- when does a thread have no step: it has finished, or it waits for a mutex that is held -/
theorem tstep_none {cfg : Cfg} {tid : Tid} {sh : Sh} {th : Thread} (h : tstep cfg tid sh th = none) :
    th.finished ∨ (∃ u d, th.pc = .gAcq u d ∧ sh.mutex ≠ none) := by
  unfold tstep at h
  split at h
  all_goals (repeat' split at h)
  all_goals (first | (simp at h; done) | skip)
  · left; constructor <;> assumption
  · right; exact ⟨_, _, by assumption, by simp_all⟩

theorem tstep_holding_some {cfg : Cfg} {tid : Tid} {sh : Sh} {th : Thread} (hh : th.pc.holding = true) :
    (tstep cfg tid sh th).isSome = true := by
  cases h : tstep cfg tid sh th with
  | some _ => rfl
  | none =>
    rcases tstep_none h with hf | ⟨u, d, hp, _⟩
    · rw [hf.1] at hh; simp at hh
    · rw [hp] at hh; simp at hh

end MakoModel.Conc
