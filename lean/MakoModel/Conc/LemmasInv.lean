import MakoModel.Conc.Lemmas
/-!
Generic invariants: "every template the system holds satisfies `P`" (`AllT`, used by `returns_complete` and
`first_requests_compile_once`), the ghost registry of completed constructions (`BuiltOk`), what a step does to the
clock / files / registry (`tstep_ghost`).
-/
namespace MakoModel.Conc

/-! ## "every template the system holds satisfies `P`" -/

def Res.All (P : Tmpl → Prop) : Res → Prop
  | .tmpl t _ _ => P t
  | _ => True

def Pc.All (P : Tmpl → Prop) : Pc → Prop
  | .gS _ t | .gP _ t | .gW _ _ t | .rK t _ _ _ _ | .gRelS _ t => P t
  | .gM r | .gMd r _ | .gRel r => r.All P
  | _ => True

def Thread.All (P : Tmpl → Prop) (th : Thread) : Prop :=
  th.pc.All P ∧ (∀ r ∈ th.results, r.All P) ∧ (∀ x, th.last = some x → P x)

@[simp] theorem Pc.all_idle {P : Tmpl → Prop} : (Pc.idle).All P ↔ True := Iff.rfl
@[simp] theorem Pc.all_gS {P : Tmpl → Prop} {u t} : (Pc.gS u t).All P ↔ P t := Iff.rfl
@[simp] theorem Pc.all_gP {P : Tmpl → Prop} {u t} : (Pc.gP u t).All P ↔ P t := Iff.rfl
@[simp] theorem Pc.all_gPx {P : Tmpl → Prop} {u} : (Pc.gPx u).All P ↔ True := Iff.rfl
@[simp] theorem Pc.all_gF {P : Tmpl → Prop} {u d} : (Pc.gF u d).All P ↔ True := Iff.rfl
@[simp] theorem Pc.all_gAcq {P : Tmpl → Prop} {u d} : (Pc.gAcq u d).All P ↔ True := Iff.rfl
@[simp] theorem Pc.all_gH2 {P : Tmpl → Prop} {u d} : (Pc.gH2 u d).All P ↔ True := Iff.rfl
@[simp] theorem Pc.all_gC {P : Tmpl → Prop} {u d} : (Pc.gC u d).All P ↔ True := Iff.rfl
@[simp] theorem Pc.all_gW {P : Tmpl → Prop} {u d t} : (Pc.gW u d t).All P ↔ P t := Iff.rfl
@[simp] theorem Pc.all_gM {P : Tmpl → Prop} {r} : (Pc.gM r).All P ↔ r.All P := Iff.rfl
@[simp] theorem Pc.all_gMd {P : Tmpl → Prop} {r l} : (Pc.gMd r l).All P ↔ r.All P := Iff.rfl
@[simp] theorem Pc.all_gP2 {P : Tmpl → Prop} {u} : (Pc.gP2 u).All P ↔ True := Iff.rfl
@[simp] theorem Pc.all_gRel {P : Tmpl → Prop} {r} : (Pc.gRel r).All P ↔ r.All P := Iff.rfl
@[simp] theorem Pc.all_rK {P : Tmpl → Prop} {t c k l u} : (Pc.rK t c k l u).All P ↔ P t := Iff.rfl
@[simp] theorem Pc.all_gRelS {P : Tmpl → Prop} {u t} : (Pc.gRelS u t).All P ↔ P t := Iff.rfl
@[simp] theorem Pc.all_aS {P : Tmpl → Prop} {k} : (Pc.aS k).All P ↔ True := Iff.rfl
@[simp] theorem Res.all_adjusted {P : Tmpl → Prop} {k} : (Res.adjusted k).All P ↔ True := Iff.rfl
@[simp] theorem Res.all_keyError {P : Tmpl → Prop} : (Res.keyError).All P ↔ True := Iff.rfl
@[simp] theorem Res.all_tmpl {P : Tmpl → Prop} {t b f} : (Res.tmpl t b f).All P ↔ P t := Iff.rfl
@[simp] theorem Res.all_notFound {P : Tmpl → Prop} : (Res.notFound).All P ↔ True := Iff.rfl
@[simp] theorem Res.all_gone {P : Tmpl → Prop} : (Res.gone).All P ↔ True := Iff.rfl
@[simp] theorem Res.all_compileError {P : Tmpl → Prop} : (Res.compileError).All P ↔ True := Iff.rfl
@[simp] theorem Res.all_rendered {P : Tmpl → Prop} {a b c d e} : (Res.rendered a b c d e).All P ↔ True := Iff.rfl
@[simp] theorem Res.all_noTemplate {P : Tmpl → Prop} : (Res.noTemplate).All P ↔ True := Iff.rfl
@[simp] theorem all_okRes_iff {P : Tmpl → Prop} (th : Thread) (t : Tmpl) (b : Bool) : (th.okRes t b).All P ↔ P t := Iff.rfl

/-- every template in the collection, in a program counter, in a result list or remembered for rendering -/
def AllT (P : Tmpl → Prop) (s : Sys) : Prop :=
  (∀ x ∈ vals s.sh.coll, P x) ∧ ∀ t, (s.threads t).All P

theorem Res.All.mono {P Q : Tmpl → Prop} (h : ∀ x, P x → Q x) {r : Res} (hr : r.All P) : r.All Q := by
  cases r <;> simp_all

theorem Pc.All.mono {P Q : Tmpl → Prop} (h : ∀ x, P x → Q x) {pc : Pc} (hp : pc.All P) : pc.All Q := by
  cases pc <;> simp_all <;> exact Res.All.mono h hp

theorem Thread.All.mono {P Q : Tmpl → Prop} (h : ∀ x, P x → Q x) {th : Thread} (hp : th.All P) : th.All Q :=
  ⟨Pc.All.mono h hp.1, fun r hr => Res.All.mono h (hp.2.1 r hr), fun x hx => h x (hp.2.2 x hx)⟩

theorem all_ret {P : Tmpl → Prop} {th : Thread} {r : Res} (hres : ∀ r ∈ th.results, r.All P)
    (hlast : ∀ x, th.last = some x → P x) (hr : r.All P) : (th.ret r).All P := by
  refine ⟨by simp, ?_, ?_⟩
  · intro r' hr'
    simp only [Thread.ret, List.mem_append, List.mem_singleton] at hr'
    rcases hr' with h | rfl
    · exact hres _ h
    · exact hr
  · intro x hx
    simp only [Thread.ret] at hx
    cases r <;> simp_all <;> exact hlast x hx

theorem all_at {P : Tmpl → Prop} {th : Thread} {pc : Pc} (hres : ∀ r ∈ th.results, r.All P)
    (hlast : ∀ x, th.last = some x → P x) (hp : pc.All P) : (th.at pc).All P :=
  ⟨hp, hres, hlast⟩

theorem all_afterScan {P : Tmpl → Prop} {th : Thread} {t : Tmpl} (hres : ∀ r ∈ th.results, r.All P)
    (hlast : ∀ x, th.last = some x → P x) (hp : P t)
    (memo : Nat → Nat → Option Nat) (ctx : Nat) (kinds todo used : List Nat) :
    (th.afterScan (renderScan memo t ctx kinds todo used)).All P := by
  rcases afterScan_cases th memo t ctx kinds todo used with ⟨u, h⟩ | ⟨k, rest, u, h⟩ <;> rw [h]
  · exact all_ret hres hlast (by simp)
  · exact all_at hres hlast (by simpa using hp)

theorem all_okRes {P : Tmpl → Prop} (th : Thread) {t : Tmpl} (b : Bool) (hp : P t) : (th.okRes t b).All P := by
  simpa using hp

theorem all_vals_remove {P : Tmpl → Prop} {c : List Entry} (u : Uri) (h : ∀ x ∈ vals c, P x) :
    ∀ x ∈ vals (remove c u), P x := fun x hx => h x (mem_vals_remove hx)

theorem all_vals_setItem {P : Tmpl → Prop} {c : List Entry} (u : Uri) {t : Tmpl} (n : Nat)
    (h : ∀ x ∈ vals c, P x) (ht : P t) : ∀ x ∈ vals (setItem c u t n), P x := by
  intro x hx
  rcases mem_vals_setItem hx with rfl | h'
  · exact ht
  · exact h x h'

theorem all_vals_readColl {P : Tmpl → Prop} {sh : Sh} (cfg : Cfg) (u : Uri) (h : ∀ x ∈ vals sh.coll, P x) :
    ∀ x ∈ vals (readColl cfg sh u).2.coll, P x := by simpa using h

/-- one step: templates only move between the collection and the stepping thread, except for the one a
    successful construction creates -/
theorem tstep_all {P P' : Tmpl → Prop} {cfg : Cfg} {tid : Tid} {sh sh' : Sh} {th th' : Thread}
    (hmono : ∀ x, P x → P' x)
    (hnew : ∀ f u d, th.pc = .gC u d → sh.fs d u = some f → f.good = true →
      P' ⟨sh.constructions, u, d, f.ver, sh.clock⟩)
    (h : tstep cfg tid sh th = some (sh', th'))
    (hc : ∀ x ∈ vals sh.coll, P x) (ht : th.All P) :
    (∀ x ∈ vals sh'.coll, P' x) ∧ th'.All P' := by
  have hc' : ∀ x ∈ vals sh.coll, P' x := fun x hx => hmono x (hc x hx)
  obtain ⟨hpc, hres, hlast⟩ := Thread.All.mono hmono ht
  clear hc ht hmono
  tstep_cases h
  case h_2 =>
    startOp_cases h
    all_goals (
      refine ⟨?_, ?_⟩
      · first
        | exact hc'
        | exact all_vals_readColl _ _ hc'
      · first
        | (refine ⟨?_, hres, hlast⟩; show Pc.All P' th.pc; rw [‹th.pc = Pc.idle›]; simp; done)
        | (refine all_at hres hlast ?_; simp; done)
        | (refine all_at hres hlast ?_; simp; exact hc' _ (readColl_some ‹_›))
        | (refine all_ret hres hlast ?_; simp; done)
        | (refine all_ret hres hlast ?_; simp; exact hc' _ (readColl_some ‹_›))
        | (apply all_afterScan
           · exact hres
           · exact hlast
           · exact hlast _ ‹_›))
  all_goals (rw [‹th.pc = _›] at hpc hnew; try simp only [Pc.all_gS, Pc.all_gP, Pc.all_gW, Pc.all_gM, Pc.all_gMd, Pc.all_gRel, Pc.all_rK, Pc.all_gRelS] at hpc)
  all_goals (
    refine ⟨?_, ?_⟩
    · first
      | exact hc'
      | exact all_vals_readColl _ _ hc'
      | exact all_vals_remove _ hc'
      | exact all_vals_setItem _ _ hc' hpc
    · first
      | (refine all_at hres hlast ?_; simp; done)
      | (refine all_at hres hlast ?_; simp; exact hpc)
      | (refine all_at hres hlast ?_; simp; exact hc' _ (readColl_some ‹_›))
      | (refine all_at hres hlast ?_; simp; exact hnew _ _ _ rfl ‹_› ‹_›)
      | (refine all_ret hres hlast ?_; simp; done)
      | (refine all_ret hres hlast ?_; simp; exact hpc)
      | (refine all_at hres hlast ?_; split <;> simp <;> exact hpc)
      | (refine ⟨?_, hres, hlast⟩; show Pc.All P' th.pc; rw [‹th.pc = _›]; simp; exact hpc)
      | exact all_afterScan hres hlast hpc _ _ _ _ _
      | exact all_ret hres hlast hpc)

theorem step_allT {P P' : Tmpl → Prop} {s s' : Sys} {tid : Tid}
    (hmono : ∀ x, P x → P' x)
    (hnew : ∀ f u d, (s.threads tid).pc = .gC u d → s.sh.fs d u = some f → f.good = true →
      P' ⟨s.sh.constructions, u, d, f.ver, s.sh.clock⟩)
    (h : step s tid = some s') (hi : AllT P s) : AllT P' s' := by
  obtain ⟨sh, th, ht, rfl⟩ := step_iff.1 h
  obtain ⟨hc, hth⟩ := tstep_all hmono hnew ht hi.1 (hi.2 tid)
  refine ⟨hc, fun t => ?_⟩
  rw [set_threads]
  split
  · exact hth
  · exact Thread.All.mono hmono (hi.2 t)

/-! ## ghost state: clock, files, the registry of completed constructions -/

theorem writeFile_mono {fs : FS} {d u : Nat} {f : File} (d' u' : Nat) (g : Bool) (now : Nat)
    (h : fs d u = some f) :
    ∃ f', writeFile fs d' u' g now d u = some f' ∧ f.ver ≤ f'.ver ∧ (f.mtime ≤ now → f.mtime ≤ f'.mtime) ∧
      f'.mtime ≤ max f.mtime now := by
  unfold writeFile
  split
  · next hh =>
    obtain ⟨rfl, rfl⟩ := hh
    simp [h]
    omega
  · exact ⟨f, h, Nat.le_refl _, fun _ => Nat.le_refl _, Nat.le_max_left _ _⟩

/-- what a step does to the clock, the files and the registry -/
theorem tstep_ghost {cfg : Cfg} {tid : Tid} {sh sh' : Sh} {th th' : Thread}
    (h : tstep cfg tid sh th = some (sh', th')) :
    (sh'.clock = sh.clock ∧ sh'.fs = sh.fs ∧ sh'.built = sh.built ∧ sh.constructions ≤ sh'.constructions) ∨
    (sh'.clock = sh.clock + 1 ∧ sh'.fs = sh.fs ∧ sh'.built = sh.built ∧ sh'.constructions = sh.constructions) ∨
    (∃ d u g, sh'.fs = writeFile sh.fs d u g sh.clock ∧ sh'.clock = sh.clock ∧ sh'.built = sh.built ∧
      sh'.constructions = sh.constructions) ∨
    (∃ f u d, th.pc = .gC u d ∧ sh.fs d u = some f ∧ f.good = true ∧
      sh'.built = sh.built ++ [⟨sh.constructions, u, d, f.ver, sh.clock⟩] ∧
      sh'.constructions = sh.constructions + 1 ∧ sh'.fs = sh.fs ∧ sh'.clock = sh.clock) := by
  tstep_cases h
  case h_2 =>
    startOp_cases h
    all_goals (first | (left; simp; done) | (right; left; simp; done) | (right; right; left; exact ⟨_, _, _, rfl, rfl, rfl, rfl⟩))
  all_goals (first | (left; simp; done) | (right; right; right; exact ⟨_, _, _, ‹_›, ‹_›, ‹_›, rfl, rfl, rfl, rfl⟩))

/-- the registry: ids are construction numbers, stamps are not from the future, versions existed -/
def BuiltOk (s : Sys) : Prop :=
  (∀ t ∈ s.sh.built, t.id < s.sh.constructions ∧ t.stamp ≤ s.sh.clock ∧
      ∃ f, s.sh.fs t.dir t.uri = some f ∧ t.ver ≤ f.ver) ∧
  s.sh.built.Pairwise (fun a b => a.id ≠ b.id)

theorem builtOk_init {s : Sys} (h : Init s) : BuiltOk s := by
  simp [BuiltOk, h.built]

theorem builtOk_step {s s' : Sys} {tid : Tid} (hi : BuiltOk s) (h : step s tid = some s') : BuiltOk s' := by
  obtain ⟨sh, th, ht, rfl⟩ := step_iff.1 h
  obtain ⟨h1, h2⟩ := hi
  rcases tstep_ghost ht with ⟨hc, hf, hb, hn⟩ | ⟨hc, hf, hb, hn⟩ | ⟨d, u, g, hf, hc, hb, hn⟩ |
      ⟨f, u, d, hp, hfs, hg, hb, hn, hf, hc⟩
  · refine ⟨fun t ht' => ?_, by simpa [hb] using h2⟩
    simp only [set_sh, hb, hc, hf] at ht' ⊢
    obtain ⟨a, b, c⟩ := h1 t ht'
    exact ⟨by omega, b, c⟩
  · refine ⟨fun t ht' => ?_, by simpa [hb] using h2⟩
    simp only [set_sh, hb, hc, hf, hn] at ht' ⊢
    obtain ⟨a, b, c⟩ := h1 t ht'
    exact ⟨a, by omega, c⟩
  · refine ⟨fun t ht' => ?_, by simpa [hb] using h2⟩
    simp only [set_sh, hb, hc, hf, hn] at ht' ⊢
    obtain ⟨a, b, f, c, e⟩ := h1 t ht'
    obtain ⟨f', hf', hv, _⟩ := writeFile_mono d u g s.sh.clock c
    exact ⟨a, b, f', hf', by omega⟩
  · refine ⟨fun t ht' => ?_, ?_⟩
    · simp only [set_sh, hb, hc, hf, hn, List.mem_append, List.mem_singleton] at ht' ⊢
      rcases ht' with ht' | rfl
      · obtain ⟨a, b, c⟩ := h1 t ht'
        exact ⟨by omega, b, c⟩
      · exact ⟨by simp, by simp, f, hfs, by simp⟩
    · simp only [set_sh, hb]
      rw [List.pairwise_append]
      refine ⟨h2, by simp, ?_⟩
      intro a ha b hb'
      simp at hb'
      subst hb'
      have := (h1 a ha).1
      simp; omega

theorem builtOk_reachable {s0 s : Sys} (h0 : Init s0) (hr : Reachable s0 s) : BuiltOk s :=
  reachable_induction hr (builtOk_init h0) (fun _ _ _ ih h => builtOk_step ih h)

theorem built_mono_step {s s' : Sys} {tid : Tid} (h : step s tid = some s') : ∀ x ∈ s.sh.built, x ∈ s'.sh.built := by
  obtain ⟨sh, th, ht, rfl⟩ := step_iff.1 h
  rcases tstep_ghost ht with ⟨_, _, hb, _⟩ | ⟨_, _, hb, _⟩ | ⟨_, _, _, _, _, hb, _⟩ | ⟨_, _, _, _, _, _, hb, _⟩ <;>
    simp [hb] <;> intro x hx <;> exact Or.inl hx

theorem tstep_gC_good {cfg : Cfg} {tid : Tid} {sh sh' : Sh} {th th' : Thread} {u d : Nat} {f : File}
    (hp : th.pc = .gC u d) (hf : sh.fs d u = some f) (hg : f.good = true)
    (h : tstep cfg tid sh th = some (sh', th')) :
    sh'.built = sh.built ++ [⟨sh.constructions, u, d, f.ver, sh.clock⟩] := by
  unfold tstep at h
  simp [hp, hf, hg] at h
  rw [← h.1]

/-- every template anywhere in the system is in the registry of completed constructions -/
theorem allBuilt_reachable {s0 s : Sys} (h0 : Init s0) (hr : Reachable s0 s) :
    AllT (fun t => t ∈ s.sh.built) s := by
  refine reachable_induction (P := fun s => AllT (fun t => t ∈ s.sh.built) s) hr ?_ ?_
  · refine ⟨by simp [h0.coll, vals], fun t => ⟨by simp [(h0.threads t).1], by simp [(h0.threads t).2.1],
      by simp [(h0.threads t).2.2.1]⟩⟩
  · intro s tid s' ih h
    refine step_allT (built_mono_step h) ?_ h ih
    intro f u d hp hf hg
    obtain ⟨sh, th, ht, rfl⟩ := step_iff.1 h
    simp [tstep_gC_good hp hf hg ht]

theorem pairwise_id_unique {l : List Tmpl} (h : l.Pairwise (fun a b => a.id ≠ b.id)) {a b : Tmpl}
    (ha : a ∈ l) (hb : b ∈ l) (e : a.id = b.id) : a = b := by
  induction l with
  | nil => simp at ha
  | cons x r ih =>
    rw [List.pairwise_cons] at h
    simp only [List.mem_cons] at ha hb
    rcases ha with rfl | ha <;> rcases hb with rfl | hb
    · rfl
    · exact absurd e (h.1 _ hb)
    · exact absurd e.symm (h.1 _ ha)
    · exact ih h.2 ha hb

end MakoModel.Conc
