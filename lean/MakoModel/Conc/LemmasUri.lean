import MakoModel.Conc.Lemmas
/-!
`adjust_uri` and `_uri_cache`: the read is `try: return self._uri_cache[key] except KeyError: …`, so no schedule –
with the plain dict or with the evicting `LRUCache` – makes `adjust_uri` raise.
-/
namespace MakoModel.Conc

def Pc.NoKeyErr : Pc → Prop
  | .gM r | .gMd r _ | .gRel r => r ≠ .keyError
  | _ => True

/-- nobody got, or is about to be handed, a `KeyError` -/
structure UriInv (s : Sys) : Prop where
  pc : ∀ t, (s.threads t).pc.NoKeyErr
  res : ∀ t, ∀ r ∈ (s.threads t).results, r ≠ .keyError

theorem nokey_ret {th : Thread} {r : Res} (hr : ∀ r ∈ th.results, r ≠ .keyError) (h : r ≠ .keyError) :
    ∀ r' ∈ (th.ret r).results, r' ≠ .keyError := by
  intro r' hr'
  simp only [Thread.ret, List.mem_append, List.mem_singleton] at hr'
  rcases hr' with h' | rfl
  · exact hr _ h'
  · exact h

theorem tstep_uri {cfg : Cfg} {tid : Tid} {sh sh' : Sh} {th th' : Thread}
    (h : tstep cfg tid sh th = some (sh', th')) (hp : th.pc.NoKeyErr)
    (hr : ∀ r ∈ th.results, r ≠ .keyError) :
    th'.pc.NoKeyErr ∧ ∀ r ∈ th'.results, r ≠ .keyError := by
  tstep_cases h
  case h_2 =>
    startOp_cases h
    all_goals (first
      | (refine ⟨?_, ?_⟩
         · simp [Pc.NoKeyErr]
         · first | exact hr | (refine nokey_ret ?_ ?_; exact hr; simp [Thread.okRes]; done))
      | (refine ⟨?_, hr⟩
         show Pc.NoKeyErr th.pc
         rw [‹th.pc = Pc.idle›]; trivial)
      | (rcases afterScan_cases _ _ _ _ _ _ _ with ⟨_, hh⟩ | ⟨_, _, _, hh⟩ <;> rw [hh]
         · exact ⟨by simp [Pc.NoKeyErr], by refine nokey_ret ?_ ?_; exact hr; simp⟩
         · exact ⟨by simp [Pc.NoKeyErr], hr⟩))
  all_goals (rw [‹th.pc = _›] at hp; simp only [Pc.NoKeyErr] at hp)
  all_goals (first
    | (refine ⟨?_, ?_⟩
       · first | (simp [Pc.NoKeyErr]; done) | (simp [Pc.NoKeyErr]; exact hp) | (simp [Pc.NoKeyErr, Thread.okRes]; done)
       · first | exact hr | (refine nokey_ret hr ?_; simp [Thread.okRes]; done) | exact nokey_ret hr hp)
    | (refine ⟨?_, hr⟩
       split <;> simp [Pc.NoKeyErr] <;> exact hp)
    | (refine ⟨?_, hr⟩
       show Pc.NoKeyErr th.pc
       rw [‹th.pc = _›]; simp [Pc.NoKeyErr]; exact hp)
    | (rcases afterScan_cases _ _ _ _ _ _ _ with ⟨_, hh⟩ | ⟨_, _, _, hh⟩ <;> rw [hh]
       · exact ⟨by simp [Pc.NoKeyErr], by refine nokey_ret hr ?_; simp⟩
       · exact ⟨by simp [Pc.NoKeyErr], hr⟩))

theorem uriInv_init {s : Sys} (h : Init s) : UriInv s where
  pc := fun t => by rw [(h.threads t).1]; trivial
  res := fun t => by rw [(h.threads t).2.1]; simp

theorem uriInv_step {s s' : Sys} {tid : Tid} (hi : UriInv s) (h : step s tid = some s') : UriInv s' := by
  obtain ⟨sh, th, ht, rfl⟩ := step_iff.1 h
  obtain ⟨h2, h3⟩ := tstep_uri ht (hi.pc tid) (hi.res tid)
  refine ⟨fun t => ?_, fun t => ?_⟩
  · simp only [set_threads]; split
    · exact h2
    · exact hi.pc t
  · simp only [set_threads]; split
    · exact h3
    · exact hi.res t

theorem uriInv_reachable {s0 s : Sys} (h0 : Init s0) (hr : Reachable s0 s) : UriInv s :=
  reachable_induction hr (uriInv_init h0) (fun _ _ _ ih h => uriInv_step ih h)

theorem tstep_adjust_start {cfg : Cfg} {tid : Tid} {sh : Sh} {th : Thread} {k : Nat} {rest : List Op}
    (hpc : th.pc = .idle) (hprog : th.prog = .adjust k :: rest) :
    ∃ sh' th', tstep cfg tid sh th = some (sh', th') ∧
      ((th'.pc = .idle ∧ th'.results = th.results ++ [.adjusted k]) ∨ th'.pc = .aS k) := by
  cases hu : uHas sh.ucache k <;> cases hc : cfg.cap <;>
    simp only [tstep, hpc, hprog, startOp, hu, hc, Thread.ret, Thread.at] <;>
    exact ⟨_, _, rfl, by simp⟩

theorem tstep_adjust_store {cfg : Cfg} {tid : Tid} {sh : Sh} {th : Thread} {k : Nat} (hpc : th.pc = .aS k) :
    ∃ sh' th', tstep cfg tid sh th = some (sh', th') ∧ th'.pc = .idle ∧
      th'.results = th.results ++ [.adjusted k] := by
  cases hc : cfg.cap <;> simp only [tstep, hpc, hc, Thread.ret] <;> exact ⟨_, _, rfl, rfl, rfl⟩

theorem step_of_tstep {s : Sys} {tid : Tid} {sh : Sh} {th : Thread}
    (h : tstep s.cfg tid s.sh (s.threads tid) = some (sh, th)) :
    ∃ s1, step s tid = some s1 ∧ s1.threads tid = th :=
  ⟨s.set tid sh th, step_iff.2 ⟨sh, th, h, rfl⟩, set_threads_self _ _ _ _⟩

end MakoModel.Conc
