import MakoModel.Conc.Lemmas
/-!
`adjust_uri` and `_uri_cache`: with the plain dict (`collection_size = -1`) a key, once present, stays, so the
unguarded read after `key in self._uri_cache` succeeds; the bounded `LRUCache` evicts (finding F-C16-2).
-/
namespace MakoModel.Conc

def Pc.NoKeyErr : Pc → Prop
  | .gM r | .gMd r _ | .gRel r => r ≠ .keyError
  | _ => True

/-- plain dict: a thread that saw its key is still going to find it; nobody got a `KeyError` -/
structure UriInv (s : Sys) : Prop where
  seen : ∀ t k, (s.threads t).pc = .aG k → uHas s.sh.ucache k = true
  pc : ∀ t, (s.threads t).pc.NoKeyErr
  res : ∀ t, ∀ r ∈ (s.threads t).results, r ≠ .keyError

theorem uHas_uSet_none {c : List (Nat × Nat)} {k k' now : Nat} (h : uHas c k = true) :
    uHas (uSet none c k' now) k = true := by
  unfold uSet
  simp only
  split
  · exact h
  · simp only [uHas, List.any_append, Bool.or_eq_true] at *
    exact Or.inl h

/-- plain dict: no step removes a key of `_uri_cache` -/
theorem tstep_ucache_plain {cfg : Cfg} {tid : Tid} {sh sh' : Sh} {th th' : Thread} (hc : cfg.cap = none)
    (h : tstep cfg tid sh th = some (sh', th')) : ∀ k, uHas sh.ucache k = true → uHas sh'.ucache k = true := by
  tstep_cases h
  case h_2 =>
    startOp_cases h
    all_goals (intro k hk; first | exact hk | (simpa using hk))
  all_goals (first | (intro k hk; exact hk) | (intro k hk; simpa using hk) | skip)
  all_goals (first | (exfalso; simp_all; done) | skip)
  all_goals (intro k hk; exact uHas_uSet_none hk)

theorem nokey_ret {th : Thread} {r : Res} (hr : ∀ r ∈ th.results, r ≠ .keyError) (h : r ≠ .keyError) :
    ∀ r' ∈ (th.ret r).results, r' ≠ .keyError := by
  intro r' hr'
  simp only [Thread.ret, List.mem_append, List.mem_singleton] at hr'
  rcases hr' with h' | rfl
  · exact hr _ h'
  · exact h

theorem tstep_uri {cfg : Cfg} {tid : Tid} {sh sh' : Sh} {th th' : Thread} (hc : cfg.cap = none)
    (h : tstep cfg tid sh th = some (sh', th'))
    (hs : ∀ k, th.pc = .aG k → uHas sh.ucache k = true) (hp : th.pc.NoKeyErr)
    (hr : ∀ r ∈ th.results, r ≠ .keyError) :
    (∀ k, th'.pc = .aG k → uHas sh'.ucache k = true) ∧ th'.pc.NoKeyErr ∧ ∀ r ∈ th'.results, r ≠ .keyError := by
  tstep_cases h
  case h_2 =>
    startOp_cases h
    all_goals (first
      | (refine ⟨?_, ?_, ?_⟩
         · intro k hk; simp at hk
         · simp [Pc.NoKeyErr]
         · first | exact hr | (refine nokey_ret ?_ ?_; exact hr; simp [Thread.okRes]; done))
      | (refine ⟨?_, by simp [Pc.NoKeyErr], hr⟩
         intro k hk; simp at hk; subst hk; assumption)
      | (refine ⟨?_, ?_, hr⟩
         · intro k hk
           rw [‹th.pc = Pc.idle›] at hk; simp at hk
         · show Pc.NoKeyErr th.pc
           rw [‹th.pc = Pc.idle›]; trivial)
      | (rcases afterScan_cases _ _ _ _ _ _ _ with ⟨_, hh⟩ | ⟨_, _, _, hh⟩ <;> rw [hh]
         · exact ⟨by intro k hk; simp at hk, by simp [Pc.NoKeyErr], by refine nokey_ret ?_ ?_; exact hr; simp⟩
         · exact ⟨by intro k hk; simp at hk, by simp [Pc.NoKeyErr], hr⟩))
  all_goals (rw [‹th.pc = _›] at hp; simp only [Pc.NoKeyErr] at hp)
  all_goals (first
    | (exfalso; simp_all; done)
    | (refine ⟨?_, ?_, ?_⟩
       · intro k hk; simp at hk
       · first | (simp [Pc.NoKeyErr]; done) | (simp [Pc.NoKeyErr]; exact hp) | (simp [Pc.NoKeyErr, Thread.okRes]; done)
       · first | exact hr | (refine nokey_ret hr ?_; simp [Thread.okRes]; done) | exact nokey_ret hr hp)
    | (refine ⟨?_, ?_, hr⟩
       · intro k hk; split at hk <;> simp at hk
       · split <;> simp [Pc.NoKeyErr] <;> exact hp)
    | (rcases afterScan_cases _ _ _ _ _ _ _ with ⟨_, hh⟩ | ⟨_, _, _, hh⟩ <;> rw [hh]
       · exact ⟨by intro k hk; simp at hk, by simp [Pc.NoKeyErr], by refine nokey_ret hr ?_; simp⟩
       · exact ⟨by intro k hk; simp at hk, by simp [Pc.NoKeyErr], hr⟩)
    | (exfalso
       have := hs _ ‹_›
       simp_all
       done)
    | skip)

theorem uriInv_init {s : Sys} (h : Init s) : UriInv s where
  seen := fun t k hk => by rw [(h.threads t).1] at hk; simp at hk
  pc := fun t => by rw [(h.threads t).1]; trivial
  res := fun t => by rw [(h.threads t).2.1]; simp

theorem uriInv_step {s s' : Sys} {tid : Tid} (hc : s.cfg.cap = none) (hi : UriInv s)
    (h : step s tid = some s') : UriInv s' := by
  obtain ⟨sh, th, ht, rfl⟩ := step_iff.1 h
  obtain ⟨h1, h2, h3⟩ := tstep_uri hc ht (hi.seen tid) (hi.pc tid) (hi.res tid)
  refine ⟨fun t k hk => ?_, fun t => ?_, fun t => ?_⟩
  · simp only [set_threads, set_sh] at hk ⊢
    split at hk
    · exact h1 k hk
    · exact tstep_ucache_plain hc ht k (hi.seen t k hk)
  · simp only [set_threads]; split
    · exact h2
    · exact hi.pc t
  · simp only [set_threads]; split
    · exact h3
    · exact hi.res t

theorem uriInv_reachable {s0 s : Sys} (h0 : Init s0) (hc : s0.cfg.cap = none) (hr : Reachable s0 s) : UriInv s := by
  have : UriInv s ∧ s.cfg = s0.cfg := by
    refine reachable_induction (P := fun s => UriInv s ∧ s.cfg = s0.cfg) hr ⟨uriInv_init h0, rfl⟩ ?_
    intro s tid s' ih h
    exact ⟨uriInv_step (by rw [ih.2]; exact hc) ih.1 h, (step_cfg h).trans ih.2⟩
  exact this.1

end MakoModel.Conc
