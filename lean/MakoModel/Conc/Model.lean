import MakoModel.Generated.Lookup
/-!
# L7 – interleaving model of `TemplateLookup.get_template` and of concurrent renders (property C16)

Threads are programs (`List Op`); every operation is broken into the **atomic steps of the code that exists**
in /repo (`mako/lookup.py`, `mako/util.py: LRUCache`, `mako/template.py`, `mako/runtime.py`), one step per
scheduling point.  A step is everything one thread does from one scheduling point up to (not including) the
next one.  `step : Sys → Tid → Option Sys` (`none` = the thread is finished, or blocked on the mutex);
a schedule is ANY list of thread ids (`run`).

Scheduling points of `get_template(uri)` and the label under which the harness (`harness/sched.py`) observes
them on the real code:

| point | code                                                                  | label |
|-------|-----------------------------------------------------------------------|-------|
| `H`   | `self._collection[uri]` in `get_template` (LRU: re-stamps a hit)        | `R`   |
| `S`   | `os.stat(template.filename)` in `_check`, compare `_modified_time >= mtime`, return | `S` |
| `P`   | `self._collection.pop(uri, None)` in `_check` (stale) – then `_load`    | `P`   |
| `F`   | `os.path.isfile(srcfile)` for directory `d`                             | `F`   |
| `Acq` | `self._mutex.acquire()` – blocks while the mutex is held                | `A`   |
| `H2`  | second-chance `self._collection[uri]` in `_load`: a hit is kept, the mutex released (`X`), then `_check` (`S` …) when `filesystem_checks` | `R` |
| `C`   | `Template(uri=…, filename=…)`: reads the file's content *now*, stamps `_modified_time = time.time()`; may raise | `C` |
| `W`   | `self._collection[uri] = template` (LRU: `_Item` stamped on creation, value replaced in place otherwise) | `W` |
| `M`   | LRU `_manage_size`: `while len(self) > capacity + capacity*threshold` + `sorted(…)[capacity:]` | `L` |
| `Md`  | LRU `_manage_size`: `del self[item.key]`; `KeyError` → `break` → back to `M` | `D`   |
| `P2`  | `self._collection.pop(uri, None)` in the `except:` of `_load`           | `P`   |
| `Rel` | `self._mutex.release()` in the `finally:` – then return / re-raise      | `X`   |

Other operations: `tick` (`T`) advances the whole-second clock; `write d u good` (`V`) replaces the content of
file `u` in directory `d` (version + 1, mtime := clock; `good = false`: a source that does not compile);
`render ctx kinds` renders the template the thread obtained last with its own context `ctx`: point `B`
(`Template.render` – a fresh `Context`), and one point `K` for every lazily memoised shared cell that the
render finds unset (the `memoized_property.__get__` of `Template.reserved_names` / `Template.cache`): between the
failed check and the write other threads may run; the write stores a value that depends on the cell only.

`adjust k` is `lookup.adjust_uri(uri, relativeto)` (the first thing every include / inherit / namespace-file does):
point `g` (`try: return self._uri_cache[key]`; the LRU re-stamps a hit), on `KeyError` point `s` (store the computed
value; for the bounded lookup `LRUCache.__setitem__` with its `_manage_size` as one step).

Time: `clock` = `time.time()` = the mtime given to written files (whole seconds, as C14/C16 quantify);
`lruClock` = `timeit.default_timer()` as a strictly increasing counter.  Ghost state (never read by the code
paths): `Thread.fs0` – the file system at the start of the current `get_template` call, `Res.tmpl`'s
`viaH2`/`f0` fields, and the stamps of the plain dict.
-/
namespace MakoModel.Conc
open MakoModel.Generated.Lookup

abbrev Tid := Nat
abbrev Uri := Nat
abbrev Dir := Nat

structure File where
  /-- content version: +1 on every write -/
  ver : Nat
  mtime : Nat
  /-- the content compiles -/
  good : Bool
deriving DecidableEq, Repr

abbrev FS := Dir → Uri → Option File

/-- a completely constructed `Template` -/
structure Tmpl where
  /-- number of the `Template.__init__` call that made it -/
  id : Nat
  uri : Uri
  /-- `template.filename` = file `uri` of directory `dir` -/
  dir : Dir
  /-- content version it was compiled from -/
  ver : Nat
  /-- `module._modified_time` -/
  stamp : Nat
deriving DecidableEq, Repr

/-- `LRUCache._Item` (for the plain dict `ts` is ghost) -/
structure Entry where
  key : Uri
  val : Tmpl
  ts : Nat
deriving DecidableEq, Repr

structure Cfg where
  ndirs : Nat
  /-- `filesystem_checks` -/
  checks : Bool
  /-- `collection_size`: `none` = -1 = plain dict -/
  cap : Option Nat
deriving DecidableEq, Repr

inductive Op
  | get (u : Uri)
  | write (d : Dir) (u : Uri) (good : Bool)
  | tick
  | render (ctx : Nat) (kinds : List Nat)
  /-- `lookup.adjust_uri(uri_k, relativeto)` – what every `<%include>`, `<%inherit>`, `<%namespace file=…>` does
      first; `k` names the key `(uri, relativeto)` of `_uri_cache` -/
  | adjust (k : Nat)
deriving DecidableEq, Repr

/-- what a finished operation delivered to its thread -/
inductive Res
  /-- `get_template` returned `t`; ghost: `viaH2` = served by the second-chance read, `f0` = the file
      `(t.dir, t.uri)` as it was at the start of the call -/
  | tmpl (t : Tmpl) (viaH2 : Bool) (f0 : Option File)
  /-- `TopLevelLookupException` -/
  | notFound
  /-- `TemplateLookupException` (`os.stat` failed in `_check`) -/
  | gone
  /-- the template's own compile exception -/
  | compileError
  /-- output of a render: template id, content version, the context datum, the memo cells it reads (`kinds`), the
      values it found or initialised there -/
  | rendered (id ver ctx : Nat) (kinds : List Nat) (used : List Nat)
  /-- `render` without a template -/
  | noTemplate
  /-- `adjust_uri` returned the adjusted URI of key `k` -/
  | adjusted (k : Nat)
  /-- `adjust_uri` raised `KeyError` (no step of the current code delivers it – `uri_cache_reads_succeed`) -/
  | keyError
deriving DecidableEq, Repr

inductive Pc
  | idle
  | gS (u : Uri) (t : Tmpl)
  | gP (u : Uri) (t : Tmpl)
  | gPx (u : Uri)
  | gF (u : Uri) (d : Dir)
  | gAcq (u : Uri) (d : Dir)
  | gH2 (u : Uri) (d : Dir)
  | gC (u : Uri) (d : Dir)
  | gW (u : Uri) (d : Dir) (t : Tmpl)
  | gM (r : Res)
  | gMd (r : Res) (todo : List Uri)
  | gP2 (u : Uri)
  | gRel (r : Res)
  /-- `_load` after a second-chance HIT: about to release the mutex; then `_check(uri, t)` when `filesystem_checks` -/
  | gRelS (u : Uri) (t : Tmpl)
  | rK (t : Tmpl) (ctx : Nat) (kinds : List Nat) (todo : List Nat) (used : List Nat)
  /-- `adjust_uri`: the key was absent; about to store the computed value (`__setitem__` + `_manage_size`) -/
  | aS (k : Nat)
deriving DecidableEq, Repr

structure Thread where
  pc : Pc
  prog : List Op
  results : List Res
  /-- ghost: the file system when the current `get_template` call started -/
  fs0 : FS
  /-- the template obtained last (what `render` renders) -/
  last : Option Tmpl

/-- the state shared between the threads -/
structure Sh where
  coll : List Entry
  lruClock : Nat
  mutex : Option Tid
  fs : FS
  clock : Nat
  /-- number of `Template.__init__` calls so far -/
  constructions : Nat
  /-- lazily memoised shared cells `(template id, kind)`, each a check-then-set cell that a step writes with its
      COMPLETE value at once: kind 0 `Template.reserved_names`, kind 1 `Template.cache` (both
      `util.memoized_property.__get__`), kind 2 `Cache._def_regions[defname]` (`Cache._get_cache_kw`: the per-def
      keyword dict), further kinds: `lexer._regexp_cache[(regexp, flags)]`, `ModuleInfo._modules[…]`,
      `_uri_cache[key]` of the unbounded lookup, the module of `<%namespace module=…/>` (first import, under the import
      lock).  That the real code stores each of these objects only when it is
      complete is a regenerated obligation (`Generated/Conc.lean: memoCells`, proved in `Props/C16.lean`). -/
  memo : Nat → Nat → Option Nat
  /-- ghost: the templates whose construction completed, in order -/
  built : List Tmpl
  /-- `TemplateLookup._uri_cache`: (key, LRU stamp); a plain dict when `collection_size = -1` -/
  ucache : List (Nat × Nat)

structure Sys where
  cfg : Cfg
  sh : Sh
  threads : Tid → Thread

/-! ## the collection (`dict` / `LRUCache`) -/

def find (c : List Entry) (u : Uri) : Option Entry := c.find? (fun e => e.key == u)

def touch (c : List Entry) (u : Uri) (now : Nat) : List Entry :=
  c.map fun e => if e.key = u then { e with ts := now } else e

/-- `dict.pop(u, None)` / `del self[u]` -/
def remove (c : List Entry) (u : Uri) : List Entry := c.filter (fun e => e.key != u)

def hasKey (c : List Entry) (u : Uri) : Bool := c.any (fun e => e.key == u)

/-- `__setitem__`: an existing item keeps its stamp, its value is replaced; a new item is stamped `now`.  Key and
    value are inserted in ONE step: the `_Item` is built with its value before `dict.__setitem__` makes it visible to the
    lock-free readers (regenerated obligation `lruEntryCells`, `Props/C16.lean: lru_entry_published_with_value`). -/
def setItem (c : List Entry) (u : Uri) (t : Tmpl) (now : Nat) : List Entry :=
  if hasKey c u then c.map (fun e => if e.key = u then { e with val := t } else e)
  else c ++ [⟨u, t, now⟩]

def insertDesc (e : Entry) : List Entry → List Entry
  | [] => [e]
  | x :: r => if x.ts ≤ e.ts then e :: x :: r else x :: insertDesc e r

/-- `sorted(dict.values(self), key=timestamp, reverse=True)` -/
def sortDesc (c : List Entry) : List Entry := c.foldr insertDesc []

/-- the keys `_manage_size` is going to delete: `bytime[self.capacity:]` -/
def victims (cap : Nat) (c : List Entry) : List Uri := ((sortDesc c).drop cap).map (·.key)

/-- `len(self) > capacity + capacity * threshold` (threshold = `thresholdNum / thresholdDen`, exact) -/
def overBound (cap len : Nat) : Bool := decide (cap * thresholdDen + cap * thresholdNum < len * thresholdDen)

/-- `self._collection[uri]`: the LRU re-stamps the item it returns -/
def readColl (cfg : Cfg) (sh : Sh) (u : Uri) : Option Tmpl × Sh :=
  match find sh.coll u with
  | none => (none, sh)
  | some e =>
    if cfg.cap.isSome then
      (some e.val, { sh with coll := touch sh.coll u sh.lruClock, lruClock := sh.lruClock + 1 })
    else (some e.val, sh)

/-! ## `_uri_cache` -/

def uHas (c : List (Nat × Nat)) (k : Nat) : Bool := c.any (fun e => e.1 == k)

def uInsertDesc (e : Nat × Nat) : List (Nat × Nat) → List (Nat × Nat)
  | [] => [e]
  | x :: r => if x.2 ≤ e.2 then e :: x :: r else x :: uInsertDesc e r

/-- `LRUCache.__setitem__` of `_uri_cache` as ONE step (the harness puts no scheduling point inside it): an
    existing item keeps its stamp, a new one is stamped `now`; then `_manage_size` -/
def uSet (cap : Option Nat) (c : List (Nat × Nat)) (k now : Nat) : List (Nat × Nat) :=
  let c1 := if uHas c k then c else c ++ [(k, now)]
  match cap with
  | none => c1
  | some n => if overBound n c1.length then (c1.foldr uInsertDesc []).take n else c1

/-! ## thread steps -/

def memoVal (id kind : Nat) : Nat := 2 * id + kind + 1

/-- deliver `r` to the thread: the operation is over -/
def Thread.ret (th : Thread) (r : Res) : Thread :=
  { th with pc := .idle, results := th.results ++ [r],
            last := match r with | .tmpl t _ _ => some t | _ => th.last }

def Thread.at (th : Thread) (pc : Pc) : Thread := { th with pc := pc }

/-- `Res.tmpl` with the ghost snapshot filled in -/
def Thread.okRes (th : Thread) (t : Tmpl) (viaH2 : Bool) : Res := .tmpl t viaH2 (th.fs0 t.dir t.uri)

/-- the render reads its memo cells in order; a set cell is used as it is, the first unset one is a
    scheduling point (`rK`) -/
def renderScan (memo : Nat → Nat → Option Nat) (t : Tmpl) (ctx : Nat) (kinds : List Nat) :
    List Nat → List Nat → Pc ⊕ Res
  | [], used => .inr (.rendered t.id t.ver ctx kinds used)
  | k :: rest, used =>
    match memo t.id k with
    | some v => renderScan memo t ctx kinds rest (used ++ [v])
    | none => .inl (.rK t ctx kinds (k :: rest) used)

def Thread.afterScan (th : Thread) : Pc ⊕ Res → Thread
  | .inl pc => th.at pc
  | .inr r => th.ret r

def writeFile (fs : FS) (d : Dir) (u : Uri) (good : Bool) (now : Nat) : FS :=
  fun d' u' => if d' = d ∧ u' = u then
      some ⟨(match fs d u with | some f => f.ver | none => 0) + 1, now, good⟩
    else fs d' u'

/-- first step of the next operation of an idle thread -/
def startOp (cfg : Cfg) (sh : Sh) (th : Thread) : Op → Sh × Thread
  | .tick => ({ sh with clock := sh.clock + 1 }, th)
  | .write d u good => ({ sh with fs := writeFile sh.fs d u good sh.clock }, th)
  | .get u =>
    -- `H`
    let th := { th with fs0 := sh.fs }
    let sh' := (readColl cfg sh u).2
    match (readColl cfg sh u).1 with
    | some t =>
      if cfg.checks then (sh', th.at (.gS u t)) else (sh', th.ret (th.okRes t false))
    | none =>
      if cfg.ndirs = 0 then (sh', th.ret .notFound) else (sh', th.at (.gF u 0))
  | .render ctx kinds =>
    match th.last with
    | none => (sh, th.ret .noTemplate)
    | some t => (sh, th.afterScan (renderScan sh.memo t ctx kinds kinds []))
  | .adjust k =>
    -- `try: return self._uri_cache[key]` (the LRU re-stamps) `except KeyError: pass`
    if uHas sh.ucache k then
      match cfg.cap with
      | none => (sh, th.ret (.adjusted k))
      | some _ =>
        ({ sh with ucache := sh.ucache.map (fun e => if e.1 = k then (e.1, sh.lruClock) else e),
                   lruClock := sh.lruClock + 1 }, th.ret (.adjusted k))
    else (sh, th.at (.aS k))

/-- one atomic step of thread `tid` (its record is `th`) on the shared state -/
def tstep (cfg : Cfg) (tid : Tid) (sh : Sh) (th : Thread) : Option (Sh × Thread) :=
  match th.pc with
  | .idle =>
    match th.prog with
    | [] => none
    | op :: rest => some (startOp cfg sh { th with prog := rest } op)
  | .gS u t =>
    match sh.fs t.dir t.uri with
    | none => some (sh, th.at (.gPx u))
    | some f =>
      if f.mtime ≤ t.stamp then some (sh, th.ret (th.okRes t false))
      else some (sh, th.at (.gP u t))
  | .gP u t => some ({ sh with coll := remove sh.coll u }, th.at (.gAcq u t.dir))
  | .gPx u => some ({ sh with coll := remove sh.coll u }, th.ret .gone)
  | .gF u d =>
    if (sh.fs d u).isSome then some (sh, th.at (.gAcq u d))
    else if d + 1 < cfg.ndirs then some (sh, th.at (.gF u (d + 1)))
    else some (sh, th.ret .notFound)
  | .gAcq u d =>
    match sh.mutex with
    | none => some ({ sh with mutex := some tid }, th.at (.gH2 u d))
    | some _ => none
  | .gH2 u d =>
    match (readColl cfg sh u).1 with
    | some t => some ((readColl cfg sh u).2, th.at (.gRelS u t))
    | none => some ((readColl cfg sh u).2, th.at (.gC u d))
  | .gC u d =>
    let sh' := { sh with constructions := sh.constructions + 1 }
    match sh.fs d u with
    | none => some (sh', th.at (.gP2 u))
    | some f =>
      if f.good then
        let t : Tmpl := ⟨sh.constructions, u, d, f.ver, sh.clock⟩
        some ({ sh' with built := sh.built ++ [t] }, th.at (.gW u d t))
      else some (sh', th.at (.gP2 u))
  | .gW u _ t =>
    match cfg.cap with
    | none => some ({ sh with coll := setItem sh.coll u t 0 }, th.at (.gRel (th.okRes t false)))
    | some _ =>
      some ({ sh with coll := setItem sh.coll u t sh.lruClock,
                      lruClock := if hasKey sh.coll u then sh.lruClock else sh.lruClock + 1 },
            th.at (.gM (th.okRes t false)))
  | .gM r =>
    match cfg.cap with
    | none => some (sh, th.at (.gRel r))
    | some n =>
      if overBound n sh.coll.length then
        match victims n sh.coll with
        | [] => some (sh, th)                       -- `for item in []` – the real loop would spin as well
        | k :: rest => some (sh, th.at (.gMd r (k :: rest)))
      else some (sh, th.at (.gRel r))
  | .gMd r [] => some (sh, th.at (.gM r))
  | .gMd r (k :: rest) =>
    if hasKey sh.coll k then
      some ({ sh with coll := remove sh.coll k },
            th.at (match rest with | [] => .gM r | _ :: _ => .gMd r rest))
    else some (sh, th.at (.gM r))                   -- `KeyError` → `break`
  | .gP2 u => some ({ sh with coll := remove sh.coll u }, th.at (.gRel .compileError))
  | .gRel r => some ({ sh with mutex := none }, th.ret r)
  | .gRelS u t =>
    -- `finally: release`; then `return self._check(uri, template)` (outside the mutex) or `return template`
    if cfg.checks then some ({ sh with mutex := none }, th.at (.gS u t))
    else some ({ sh with mutex := none }, th.ret (th.okRes t true))
  | .rK _ _ _ [] _ => some (sh, th.at .idle)        -- not produced by `renderScan`
  | .rK t ctx kinds (k :: rest) used =>
    let v := memoVal t.id k
    some ({ sh with memo := fun i j => if i = t.id ∧ j = k then some v else sh.memo i j },
          th.afterScan (renderScan (fun i j => if i = t.id ∧ j = k then some v else sh.memo i j)
                          t ctx kinds rest (used ++ [v])))
  | .aS k =>
    match cfg.cap with
    | none => some ({ sh with ucache := uSet none sh.ucache k 0 }, th.ret (.adjusted k))
    | some n =>
      some ({ sh with ucache := uSet (some n) sh.ucache k sh.lruClock,
                      lruClock := if uHas sh.ucache k then sh.lruClock else sh.lruClock + 1 },
            th.ret (.adjusted k))

def Sys.set (s : Sys) (tid : Tid) (sh : Sh) (th : Thread) : Sys :=
  { s with sh := sh, threads := fun t => if t = tid then th else s.threads t }

def step (s : Sys) (tid : Tid) : Option Sys :=
  match tstep s.cfg tid s.sh (s.threads tid) with
  | none => none
  | some (sh, th) => some (s.set tid sh th)

/-- a schedule is any list of thread ids; an entry naming a finished or blocked thread is a no-op -/
def run : List Tid → Sys → Sys
  | [], s => s
  | t :: rest, s => run rest ((step s t).getD s)

def Reachable (s0 s : Sys) : Prop := ∃ sched, run sched s0 = s

def Thread.finished (th : Thread) : Prop := th.pc = .idle ∧ th.prog = []

instance (th : Thread) : Decidable th.finished := by unfold Thread.finished; exact inferInstance

/-- the pcs at which `_load` holds the mutex -/
def Pc.holding : Pc → Bool
  | .gH2 .. | .gC .. | .gW .. | .gM .. | .gMd .. | .gP2 .. | .gRel .. | .gRelS .. => true
  | _ => false

/-- the pcs inside an `LRUCache.__setitem__` / `_manage_size` -/
def Pc.inLru : Pc → Bool
  | .gM .. | .gMd .. => true
  | _ => false

def emptyFS : FS := fun _ _ => none

def Thread.init (prog : List Op) : Thread := ⟨.idle, prog, [], emptyFS, none⟩

/-- initial states: nothing loaded, mutex free, every thread at the start of its program, files not from the future -/
structure Init (s : Sys) : Prop where
  coll : s.sh.coll = []
  mutex : s.sh.mutex = none
  cons : s.sh.constructions = 0
  memo : ∀ i k, s.sh.memo i k = none
  mtime : ∀ d u f, s.sh.fs d u = some f → f.mtime ≤ s.sh.clock
  built : s.sh.built = []
  ucache : s.sh.ucache = []
  threads : ∀ t, (s.threads t).pc = .idle ∧ (s.threads t).results = [] ∧ (s.threads t).last = none
    ∧ (s.threads t).fs0 = emptyFS

def mkSys (cfg : Cfg) (fs : FS) (clock : Nat) (progs : Tid → List Op) : Sys :=
  ⟨cfg, ⟨[], 0, none, fs, clock, 0, fun _ _ => none, [], []⟩, fun t => Thread.init (progs t)⟩

end MakoModel.Conc
