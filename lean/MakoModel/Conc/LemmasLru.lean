import MakoModel.Conc.LemmasInv
/-! `lru_bound_quiescent` (`LruInv`) and `renders_independent`: memo cells are unset or hold their one complete value
(`MemoInv`), a step writes a cell completely or not at all (`step_memo_complete`), render results equal the solo output
(`RenderInv`). -/
namespace MakoModel.Conc
open MakoModel.Generated.Lookup

/-! ## `lru_bound_quiescent` -/

theorem overBound_mono {n a b : Nat} (h : overBound n a = false) (hab : b ≤ a) : overBound n b = false := by
  simp only [overBound, decide_eq_false_iff_not, Nat.not_lt] at *
  exact Nat.le_trans (Nat.mul_le_mul_right _ hab) h

/-- with a bounded collection, either some thread is inside `LRUCache.__setitem__`/`_manage_size`, or the
    size is within the bound -/
def LruInv (s : Sys) : Prop :=
  ∀ n, s.cfg.cap = some n → (∃ t, (s.threads t).pc.inLru = true) ∨ overBound n s.sh.coll.length = false

theorem tstep_lru {cfg : Cfg} {tid : Tid} {sh sh' : Sh} {th th' : Thread} {n : Nat}
    (h : tstep cfg tid sh th = some (sh', th')) (hn : cfg.cap = some n) :
    th'.pc.inLru = true ∨ (th.pc.inLru = true ∧ overBound n sh'.coll.length = false) ∨
      (th.pc.inLru = false ∧ sh'.coll.length ≤ sh.coll.length) := by
  tstep_cases h
  case h_2 =>
    startOp_cases h
    all_goals (right; right; rw [‹th.pc = Pc.idle›]; simp)
  all_goals (rw [‹th.pc = _›])
  all_goals (
    first
    | (right; right; simp; done)
    | (right; right; simp; exact remove_length_le _ _)
    | (left; simp; done)
    | (left; split <;> simp; done)
    | (left; rw [‹th.pc = _›]; simp; done)
    | (exfalso; simp_all; done)
    | (right; left; simp_all; done))

theorem lruInv_init {s : Sys} (h : Init s) : LruInv s := by
  intro n _; right; simp [h.coll, overBound]

theorem lruInv_step {s s' : Sys} {tid : Tid} (hi : LruInv s) (h : step s tid = some s') : LruInv s' := by
  obtain ⟨sh, th, ht, rfl⟩ := step_iff.1 h
  intro n hn
  simp only [set_cfg] at hn
  rcases tstep_lru ht hn with h1 | ⟨_, h2⟩ | ⟨h3, h4⟩
  · left; exact ⟨tid, by simpa using h1⟩
  · right; simpa using h2
  · rcases hi n hn with ⟨t, ht'⟩ | hb
    · left
      refine ⟨t, ?_⟩
      have : t ≠ tid := by rintro rfl; rw [h3] at ht'; simp at ht'
      rw [set_threads_other _ _ _ this]; exact ht'
    · right; simpa using overBound_mono hb h4

theorem lruInv_reachable {s0 s : Sys} (h0 : Init s0) (hr : Reachable s0 s) : LruInv s :=
  reachable_induction hr (lruInv_init h0) (fun _ _ _ ih h => lruInv_step ih h)

/-! ## renders: memo cells are idempotent, thread-local render state is private -/

/-- every memo cell is unset or holds the one value any writer would write -/
def MemoInv (memo : Nat → Nat → Option Nat) : Prop := ∀ i k v, memo i k = some v → v = memoVal i k

/-- the output of the render of template `t` with context `ctx` reading cells `kinds`, run alone -/
def renderSpec (t : Tmpl) (ctx : Nat) (kinds : List Nat) : Res :=
  .rendered t.id t.ver ctx kinds (kinds.map (memoVal t.id))

def RenderRes (r : Res) : Prop :=
  ∀ i v c ks us, r = .rendered i v c ks us → us = ks.map (memoVal i)

def Pc.RenderOk : Pc → Prop
  | .rK t _ kinds todo used => ∃ done, kinds = done ++ todo ∧ used = done.map (memoVal t.id)
  | .gM r | .gMd r _ | .gRel r => RenderRes r
  | _ => True

theorem memoInv_set {memo : Nat → Nat → Option Nat} (h : MemoInv memo) (i k : Nat) :
    MemoInv (fun i' j => if i' = i ∧ j = k then some (memoVal i k) else memo i' j) := by
  intro i' k' v hv
  simp only at hv
  split at hv
  · next hh => obtain ⟨rfl, rfl⟩ := hh; simp at hv; exact hv.symm
  · exact h _ _ _ hv

theorem renderScan_ok {memo : Nat → Nat → Option Nat} (hm : MemoInv memo) (t : Tmpl) (ctx : Nat)
    (kinds : List Nat) (todo used done : List Nat) (hk : kinds = done ++ todo)
    (hu : used = done.map (memoVal t.id)) :
    (renderScan memo t ctx kinds todo used = .inr (renderSpec t ctx kinds)) ∨
    (∃ k rest used' done', renderScan memo t ctx kinds todo used = .inl (.rK t ctx kinds (k :: rest) used') ∧
      kinds = done' ++ (k :: rest) ∧ used' = done'.map (memoVal t.id)) := by
  induction todo generalizing used done with
  | nil =>
    left
    simp only [renderScan, renderSpec]
    simp at hk
    rw [hu, hk]
  | cons k rest ih =>
    unfold renderScan
    split
    · next v hv =>
      have := hm _ _ _ hv
      subst this
      exact ih (used ++ [memoVal t.id k]) (done ++ [k]) (by simp [hk]) (by simp [hu])
    · right
      exact ⟨k, rest, used, done, rfl, hk, hu⟩

theorem renderOk_afterScan {th : Thread} {memo : Nat → Nat → Option Nat} (hm : MemoInv memo)
    (hr : ∀ r ∈ th.results, RenderRes r) (t : Tmpl) (ctx : Nat)
    (kinds : List Nat) (todo used done : List Nat) (hk : kinds = done ++ todo)
    (hu : used = done.map (memoVal t.id)) :
    (th.afterScan (renderScan memo t ctx kinds todo used)).pc.RenderOk ∧
      ∀ r ∈ (th.afterScan (renderScan memo t ctx kinds todo used)).results, RenderRes r := by
  rcases renderScan_ok hm t ctx kinds todo used done hk hu with h | ⟨k, rest, used', done', h, hk', hu'⟩ <;> rw [h]
  · refine ⟨by simp [Thread.afterScan, Pc.RenderOk], ?_⟩
    intro r hr'
    simp only [Thread.afterScan, Thread.ret, List.mem_append, List.mem_singleton] at hr'
    rcases hr' with h' | rfl
    · exact hr _ h'
    · intro i v c ks us e
      simp only [renderSpec, Res.rendered.injEq] at e
      obtain ⟨rfl, _, _, rfl, rfl⟩ := e
      rfl
  · exact ⟨⟨done', hk', hu'⟩, hr⟩

/-- what a step does to the memo cells: nothing, or it sets one cell to its idempotent value -/
theorem tstep_memo {cfg : Cfg} {tid : Tid} {sh sh' : Sh} {th th' : Thread}
    (h : tstep cfg tid sh th = some (sh', th')) :
    sh'.memo = sh.memo ∨ ∃ i k, sh'.memo = fun i' j => if i' = i ∧ j = k then some (memoVal i k) else sh.memo i' j := by
  tstep_cases h
  case h_2 =>
    startOp_cases h
    all_goals (left; simp)
  all_goals (first | (left; simp; done) | (right; exact ⟨_, _, rfl⟩))

theorem tstep_render {cfg : Cfg} {tid : Tid} {sh sh' : Sh} {th th' : Thread}
    (h : tstep cfg tid sh th = some (sh', th')) (hm : MemoInv sh.memo)
    (hp : th.pc.RenderOk) (hr : ∀ r ∈ th.results, RenderRes r) :
    th'.pc.RenderOk ∧ ∀ r ∈ th'.results, RenderRes r := by
  have hret : ∀ r : Res, (∀ i v c ks us, r ≠ .rendered i v c ks us) → ∀ r' ∈ (th.ret r).results, RenderRes r' := by
    intro r hne r' hr'
    simp only [Thread.ret, List.mem_append, List.mem_singleton] at hr'
    rcases hr' with h' | rfl
    · exact hr _ h'
    · intro i v c ks us e; exact absurd e (hne _ _ _ _ _)
  have hok : ∀ (t : Tmpl) (b : Bool), RenderRes (th.okRes t b) := by
    intro t b i v c ks us e; simp [Thread.okRes] at e
  tstep_cases h
  case h_2 =>
    startOp_cases h
    all_goals (
      first
      | (refine renderOk_afterScan hm ?_ _ _ _ _ _ [] (by simp) (by simp); exact hr)
      | refine ⟨?_, ?_⟩)
    all_goals (
      first
      | exact hr
      | (show Pc.RenderOk th.pc; rw [‹th.pc = Pc.idle›]; simp [Pc.RenderOk]; done)
      | (simp [Pc.RenderOk]; done)
      | (apply hret; simp [Thread.okRes]; done))
  all_goals (rw [‹th.pc = _›] at hp; simp only [Pc.RenderOk] at hp)
  case h_17 =>
    rename_i t ctx kinds k rest used _
    obtain ⟨done, hk, hu⟩ := hp
    exact renderOk_afterScan (memoInv_set hm _ _) hr _ _ _ _ _ (done ++ [k]) (by simp [hk]) (by simp [hu])
  all_goals (refine ⟨?_, ?_⟩)
  all_goals (
    first
    | exact hr
    | (simp [Pc.RenderOk]; done)
    | (simp [Pc.RenderOk]; exact hp)
    | (simp [Pc.RenderOk]; exact hok _ _)
    | (split <;> simp [Pc.RenderOk] <;> exact hp)
    | (show Pc.RenderOk th.pc; rw [‹th.pc = _›]; simp [Pc.RenderOk]; exact hp)
    | (apply hret; simp [Thread.okRes]; done)
    | (simp [Pc.RenderOk]; intro i v c ks us e; simp at e; done)
    | (intro r' hr'
       simp only [Thread.ret, List.mem_append, List.mem_singleton] at hr'
       rcases hr' with h' | rfl
       · exact hr _ h'
       · exact hp))

structure RenderInv (s : Sys) : Prop where
  memo : MemoInv s.sh.memo
  pc : ∀ t, (s.threads t).pc.RenderOk
  res : ∀ t, ∀ r ∈ (s.threads t).results, RenderRes r

theorem renderInv_init {s : Sys} (h : Init s) : RenderInv s where
  memo := fun i k v hv => by simp [h.memo] at hv
  pc := fun t => by rw [(h.threads t).1]; simp [Pc.RenderOk]
  res := fun t => by rw [(h.threads t).2.1]; simp

theorem renderInv_step {s s' : Sys} {tid : Tid} (hi : RenderInv s) (h : step s tid = some s') : RenderInv s' := by
  obtain ⟨sh, th, ht, rfl⟩ := step_iff.1 h
  obtain ⟨hpc, hres⟩ := tstep_render ht hi.memo (hi.pc tid) (hi.res tid)
  refine ⟨?_, fun t => ?_, fun t => ?_⟩
  · rcases tstep_memo ht with e | ⟨i, k, e⟩
    · simp only [set_sh]; rw [e]; exact hi.memo
    · simp only [set_sh]; rw [e]; exact memoInv_set hi.memo i k
  · simp only [set_threads]; split
    · exact hpc
    · exact hi.pc t
  · simp only [set_threads]; split
    · exact hres
    · exact hi.res t

theorem renderInv_reachable {s0 s : Sys} (h0 : Init s0) (hr : Reachable s0 s) : RenderInv s :=
  reachable_induction hr (renderInv_init h0) (fun _ _ _ ih h => renderInv_step ih h)

/-- a step changes a memo cell, if at all, from whatever it was to its complete idempotent value – in that one step -/
theorem step_memo_complete {s s' : Sys} {tid : Tid} (h : step s tid = some s') (i k : Nat) :
    s'.sh.memo i k = s.sh.memo i k ∨ s'.sh.memo i k = some (memoVal i k) := by
  obtain ⟨sh, th, ht, rfl⟩ := step_iff.1 h
  rcases tstep_memo ht with e | ⟨i', k', e⟩
  · left; simp [e]
  · simp only [set_sh, e]
    split
    · next hh => obtain ⟨rfl, rfl⟩ := hh; right; rfl
    · left; rfl

end MakoModel.Conc
