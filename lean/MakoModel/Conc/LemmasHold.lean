import MakoModel.Conc.Lemmas
/-!
The critical section of `_load` terminates: a measure on (collection, program counter of the holder) that every step
of the holder decreases strictly (until it releases the mutex) and no step of another thread increases.  The only
loop inside the critical section is `LRUCache._manage_size`; its `KeyError → break → loop again` path is taken only
when another thread has removed an entry meanwhile, i.e. the collection has shrunk.  A second-chance hit leaves the
critical section at once (`gRelS`, measure 0); the `_check` that follows – and a possible re-entry into `_load` – runs
outside the mutex and is a fresh acquisition.
-/
namespace MakoModel.Conc
open MakoModel.Generated.Lookup

def holdMeasure (coll : List Entry) : Pc → Nat
  | .gH2 .. => 3 * coll.length + 9
  | .gC .. => 3 * coll.length + 8
  | .gW .. => 3 * coll.length + 7
  | .gM _ => 3 * coll.length + 2
  | .gMd _ [] => 3 * coll.length + 3
  | .gMd _ (k :: _) => if hasKey coll k then 3 * coll.length + 1 else 3 * coll.length + 3
  | .gP2 _ => 1
  | _ => 0

theorem insertDesc_length (e : Entry) (l : List Entry) : (insertDesc e l).length = l.length + 1 := by
  induction l with
  | nil => rfl
  | cons x r ih => simp only [insertDesc]; split <;> simp [ih]

theorem sortDesc_length (c : List Entry) : (sortDesc c).length = c.length := by
  induction c with
  | nil => rfl
  | cons x r ih => simp only [sortDesc, List.foldr_cons] at *; rw [insertDesc_length, ih]; simp

theorem mem_insertDesc {e x : Entry} {l : List Entry} (h : x ∈ insertDesc e l) : x = e ∨ x ∈ l := by
  induction l with
  | nil => simp [insertDesc] at h; exact Or.inl h
  | cons y r ih =>
    simp only [insertDesc] at h
    split at h
    · simp only [List.mem_cons] at h ⊢; exact h
    · simp only [List.mem_cons] at h ⊢
      rcases h with h | h
      · exact Or.inr (Or.inl h)
      · rcases ih h with h | h
        · exact Or.inl h
        · exact Or.inr (Or.inr h)

theorem mem_sortDesc {x : Entry} {c : List Entry} (h : x ∈ sortDesc c) : x ∈ c := by
  induction c with
  | nil => simp [sortDesc] at h
  | cons y r ih =>
    simp only [sortDesc, List.foldr_cons] at h
    rcases mem_insertDesc h with rfl | h
    · simp
    · exact List.mem_cons_of_mem _ (ih h)

theorem overBound_lt {n len : Nat} (h : overBound n len = true) : n < len := by
  simp only [overBound, decide_eq_true_eq] at h
  have : n * thresholdDen < len * thresholdDen := Nat.lt_of_le_of_lt (Nat.le_add_right _ _) h
  exact Nat.lt_of_mul_lt_mul_right this

/-- when `_manage_size` finds the collection over its bound there is something to delete, and the first
    victim is a key of the collection -/
theorem victims_cons {n : Nat} {c : List Entry} (h : overBound n c.length = true) :
    ∃ k rest, victims n c = k :: rest ∧ hasKey c k = true := by
  have hlt := overBound_lt h
  have hl : ((sortDesc c).drop n).length = c.length - n := by simp [sortDesc_length]
  cases hd : (sortDesc c).drop n with
  | nil => rw [hd] at hl; simp at hl; omega
  | cons e r =>
    refine ⟨e.key, r.map (·.key), by simp [victims, hd], ?_⟩
    have he : e ∈ sortDesc c := List.mem_of_mem_drop (by rw [hd]; simp)
    exact hasKey_iff.2 (List.mem_map.2 ⟨e, mem_sortDesc he, rfl⟩)

theorem hasKey_touch (c : List Entry) (u : Uri) (n : Nat) (k : Uri) : hasKey (touch c u n) k = hasKey c k := by
  have := touch_keys c u n
  cases h1 : hasKey (touch c u n) k <;> cases h2 : hasKey c k <;> try rfl
  · have := hasKey_iff.1 h2; rw [← touch_keys c u n] at this; rw [hasKey_iff.2 this] at h1; cases h1
  · have := hasKey_iff.1 h1; rw [touch_keys c u n] at this; rw [hasKey_iff.2 this] at h2; cases h2

theorem hasKey_remove {c : List Entry} {u k : Uri} (h : hasKey (remove c u) k = true) : hasKey c k = true := by
  simp only [hasKey, remove, List.any_eq_true, List.mem_filter] at *
  obtain ⟨e, ⟨he, _⟩, hk⟩ := h
  exact ⟨e, he, hk⟩

theorem hasKey_remove_ne {c : List Entry} {u k : Uri} (h : hasKey c k = true) (hne : hasKey (remove c u) k = false) :
    hasKey c u = true := by
  simp only [hasKey, remove, List.any_eq_true, List.any_eq_false, List.mem_filter] at *
  obtain ⟨e, he, hk⟩ := h
  by_cases hu : e.key = u
  · exact ⟨e, he, by simp [hu]⟩
  · exact absurd hk (hne e ⟨he, by simp [hu]⟩)

/-- removing entries or re-stamping them never increases the measure -/
theorem holdMeasure_touch (c : List Entry) (u : Uri) (n : Nat) (pc : Pc) :
    holdMeasure (touch c u n) pc = holdMeasure c pc := by
  unfold holdMeasure
  split <;> simp [hasKey_touch]

theorem holdMeasure_remove (c : List Entry) (u : Uri) (pc : Pc) :
    holdMeasure (remove c u) pc ≤ holdMeasure c pc := by
  have hl := remove_length_le c u
  unfold holdMeasure
  split <;> try omega
  next r k rest =>
    cases h1 : hasKey (remove c u) k with
    | false =>
      cases h2 : hasKey c k with
      | false => simp; omega
      | true =>
        have := remove_length_lt (hasKey_remove_ne h2 h1)
        simp; omega
    | true =>
      rw [hasKey_remove h1]
      simp; omega

theorem readColl_coll (cfg : Cfg) (sh : Sh) (u : Uri) :
    (readColl cfg sh u).2.coll = sh.coll ∨ (readColl cfg sh u).2.coll = touch sh.coll u sh.lruClock := by
  unfold readColl; split <;> (try split) <;> simp

/-- what a step of a thread outside the critical section can do to the collection -/
theorem tstep_coll_nonholding {cfg : Cfg} {tid : Tid} {sh sh' : Sh} {th th' : Thread}
    (h : tstep cfg tid sh th = some (sh', th')) (hnh : th.pc.holding = false) :
    sh'.coll = sh.coll ∨ (∃ u n, sh'.coll = touch sh.coll u n) ∨ (∃ u, sh'.coll = remove sh.coll u) := by
  tstep_cases h
  case h_2 =>
    startOp_cases h
    all_goals (first
      | (left; rfl)
      | (rcases readColl_coll cfg sh _ with e | e
         · left; exact e
         · right; left; exact ⟨_, _, e⟩))
  all_goals (rw [‹th.pc = _›] at hnh)
  all_goals (first
    | (left; rfl)
    | (right; right; exact ⟨_, rfl⟩)
    | (simp at hnh; done))

theorem other_step_measure {cfg : Cfg} {tid : Tid} {sh sh' : Sh} {th th' : Thread}
    (h : tstep cfg tid sh th = some (sh', th')) (hnh : th.pc.holding = false) (pc : Pc) :
    holdMeasure sh'.coll pc ≤ holdMeasure sh.coll pc := by
  rcases tstep_coll_nonholding h hnh with e | ⟨u, n, e⟩ | ⟨u, e⟩ <;> rw [e]
  · exact Nat.le_refl _
  · rw [holdMeasure_touch]; exact Nat.le_refl _
  · exact holdMeasure_remove _ _ _

theorem holder_step_measure {cfg : Cfg} {tid : Tid} {sh sh' : Sh} {th th' : Thread}
    (h : tstep cfg tid sh th = some (sh', th')) (hh : th.pc.holding = true) :
    (th'.pc.holding = false ∧ sh'.mutex = none) ∨ holdMeasure sh'.coll th'.pc < holdMeasure sh.coll th.pc := by
  tstep_cases h
  case h_2 => rw [‹th.pc = Pc.idle›] at hh; simp at hh
  all_goals (rw [‹th.pc = _›] at hh ⊢)
  all_goals (first | (simp at hh; done) | skip)
  all_goals (first
    | (left; exact ⟨rfl, rfl⟩)
    | (right; simp [holdMeasure]; done)
    | (right; simp [holdMeasure]; omega)
    | skip)
  · -- gW, LRU, key present
    right
    simp only [at_pc, holdMeasure]
    exact Nat.lt_of_le_of_lt (Nat.add_le_add_right (Nat.mul_le_mul_left 3 (setItem_length_le _ _ _ _)) 2) (by omega)
  · -- gW, LRU, new key
    right
    simp only [at_pc, holdMeasure]
    exact Nat.lt_of_le_of_lt (Nat.add_le_add_right (Nat.mul_le_mul_left 3 (setItem_length_le _ _ _ _)) 2) (by omega)
  · -- gM: over the bound but nothing to delete - impossible
    have hvic := ‹victims _ _ = []›
    obtain ⟨k', rest', hv, _⟩ := victims_cons ‹overBound _ _ = true›
    rw [hvic] at hv
    cases hv
  · -- gM: over the bound, first victim is present
    have hvic := ‹victims _ _ = _ :: _›
    obtain ⟨k', rest', hv, hk⟩ := victims_cons ‹overBound _ _ = true›
    rw [hvic] at hv
    simp only [List.cons.injEq] at hv
    obtain ⟨rfl, rfl⟩ := hv
    right
    simp [holdMeasure, hk]
  · -- gMd, last victim, present
    right
    have hk := ‹hasKey sh.coll _ = true›
    have := remove_length_lt hk
    simp [holdMeasure, hk]; omega
  · -- gMd, more victims, present
    right
    have hk := ‹hasKey sh.coll _ = true›
    have := remove_length_lt hk
    simp only [at_pc, holdMeasure, hk, if_true]
    split <;> omega
  · -- gMd, victim already gone: KeyError, break
    right
    have hk := ‹¬ hasKey sh.coll _ = true›
    simp [holdMeasure, hk]

end MakoModel.Conc
