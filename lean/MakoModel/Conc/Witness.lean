import MakoModel.Conc.Model
/-! Concrete systems and schedules used by the non-vacuity examples of C16 (two of them are the schedules on which the
lookup used to return a stale template / `adjust_uri` used to raise; the property holds on them now). -/
namespace MakoModel.Conc

def fileFS (files : List (Dir × Uri × File)) : FS :=
  fun d u => (files.find? (fun x => x.1 == d && x.2.1 == u)).map (·.2.2)

/-- the stale-second-chance-hit scenario (finding F11, repaired in /repo 7ff14da): one directory, plain dict, `filesystem_checks` on; file 0 is version 1 (mtime 98) at clock 100.
    Thread 0: `get 0`.  Thread 1: `tick; write 0 0; get 0`. -/
def f11Sys : Sys :=
  mkSys ⟨1, true, none⟩ (fileFS [(0, 0, ⟨1, 98, true⟩)]) 100
    (fun t => if t = 0 then [.get 0] else if t = 1 then [.tick, .write 0 0 true, .get 0] else [])

/-- thread 0: H F Acq H2 C (compiles version 1, stamp 100) · thread 1: tick (101), write (version 2, mtime 101),
    H (miss: thread 0 has not written yet) · thread 0: W Rel · thread 1: F Acq H2 (hit: version 1) Rel – and now
    `_check`: S (stale) P Acq H2 (miss) C (version 2) W Rel -/
def f11Sched : List Tid := [0, 0, 0, 0, 0, 1, 1, 1, 0, 0, 1, 1, 1, 1, 1, 1, 1, 1, 1, 1, 1]

/-- bounded collection (`collection_size = 1`, bound ⌊1.5⌋ = 1), three files, two threads -/
def lruSys : Sys :=
  mkSys ⟨1, true, some 1⟩ (fileFS [(0, 0, ⟨1, 98, true⟩), (0, 1, ⟨1, 98, true⟩), (0, 2, ⟨1, 98, true⟩)]) 100
    (fun t => if t = 0 then [.get 0, .get 1] else if t = 1 then [.get 2] else [])

def lruSched : List Tid := [0, 0, 0, 0, 0, 0, 0, 0, 1, 1, 1, 1, 1, 1, 1, 1, 1, 1, 0, 0, 0, 0, 0, 0, 0, 0, 0, 0]

/-- two threads fetch template 0 and render it with contexts 11 and 22; the render reads memo cell kind 1
    (`Template.cache`); both find it unset before either writes it -/
def renderSys : Sys :=
  mkSys ⟨1, true, none⟩ (fileFS [(0, 0, ⟨1, 98, true⟩)]) 100
    (fun t => if t = 0 then [.get 0, .render 11 [1]] else if t = 1 then [.get 0, .render 22 [1]] else [])

def renderSched : List Tid := [0, 0, 0, 0, 0, 0, 0, 1, 1, 0, 1, 0, 1]

/-- a failing compile: both threads get the compile error, the mutex is released every time -/
def failSys : Sys :=
  mkSys ⟨1, true, none⟩ (fileFS [(0, 0, ⟨1, 98, false⟩)]) 100
    (fun t => if t = 0 then [.get 0] else if t = 1 then [.get 0] else [])

def failSched : List Tid := [0, 0, 0, 1, 1, 1, 0, 0, 0, 0, 1, 1, 1, 1, 1]

/-- three threads, two first requests each, for the same URI; LRU with `collection_size = 1` -/
def firstSys : Sys :=
  mkSys ⟨2, true, some 1⟩ (fileFS [(1, 0, ⟨1, 98, true⟩)]) 100
    (fun t => if t < 3 then [.get 0, .get 0] else [])

def firstSched : List Tid :=
  [0, 1, 2, 0, 1, 2, 0, 1, 2, 1, 1, 1, 1, 1, 0, 2, 0, 2, 0, 2, 1, 1, 0, 0, 2, 2, 2, 1, 0, 2, 1, 0,
   2, 0, 1, 2, 0, 1, 2, 0, 1, 2, 0, 1, 2, 0, 1, 2, 0, 1, 2, 0, 1, 2]

/-- the evicted-`_uri_cache`-key scenario (finding F-C16-2, repaired in /repo 1492cc7): bounded lookup (`collection_size = 1`); thread 0 resolves key 0 twice, thread 1 resolves key 1 -/
def uriSys : Sys :=
  mkSys ⟨1, true, some 1⟩ emptyFS 100
    (fun t => if t = 0 then [.adjust 0, .adjust 0] else if t = 1 then [.adjust 1] else [])

/-- thread 0: read (absent), store · thread 1: read (absent), store – `_manage_size` evicts key 0 · thread 0: read
    (absent again: `KeyError` caught), store -/
def uriSched : List Tid := [0, 0, 1, 1, 0, 0]

/-- the same programs on an unbounded lookup -/
def uriSysPlain : Sys :=
  mkSys ⟨1, true, none⟩ emptyFS 100
    (fun t => if t = 0 then [.adjust 0, .adjust 0] else if t = 1 then [.adjust 1] else [])

theorem init_mkSys (cfg : Cfg) (fs : FS) (clock : Nat) (progs : Tid → List Op)
    (h : ∀ d u f, fs d u = some f → f.mtime ≤ clock) : Init (mkSys cfg fs clock progs) :=
  ⟨rfl, rfl, rfl, fun _ _ => rfl, h, rfl, rfl, fun _ => ⟨rfl, rfl, rfl, rfl⟩⟩

theorem fileFS_mtime (files : List (Dir × Uri × File)) (clock : Nat)
    (h : files.all (fun x => decide (x.2.2.mtime ≤ clock)) = true) :
    ∀ d u f, fileFS files d u = some f → f.mtime ≤ clock := by
  intro d u f hf
  simp only [fileFS, Option.map_eq_some_iff] at hf
  obtain ⟨x, hx, rfl⟩ := hf
  have := List.all_eq_true.1 h x (List.mem_of_find?_eq_some hx)
  simpa using this

end MakoModel.Conc
