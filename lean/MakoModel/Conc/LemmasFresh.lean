import MakoModel.Conc.LemmasInv
/-!
The freshness invariant behind `returns_fresh` (filesystem_checks on): every template `get_template` returns – a
second-chance hit included, which goes through `_check` after the mutex is released – was either compiled during the
call, or passed the `_check` comparison against the file as it was no earlier than the start of the call.
-/
namespace MakoModel.Conc

/-- C14's freshness rule, relative to the file `f` as it was at the start of the call: the template is compiled
    from content no older than `f`, or `f`'s mtime is not later than the compile stamp (so the rule does not ask
    for a reload).  No path is excluded any more: a second-chance hit goes through `_check` as well. -/
def FreshRes (r : Res) : Prop :=
  ∀ t b f, r = .tmpl t b (some f) → f.ver ≤ t.ver ∨ f.mtime ≤ t.stamp

def Pc.Fresh (fs0 : FS) : Pc → Prop
  | .gW u d t => t.dir = d ∧ t.uri = u ∧ ∀ f0, fs0 d u = some f0 → f0.ver ≤ t.ver
  | .gM r | .gMd r _ | .gRel r => FreshRes r
  | _ => True

@[simp] theorem Pc.fresh_idle {fs0 : FS} : (Pc.idle).Fresh fs0 ↔ True := Iff.rfl
@[simp] theorem Pc.fresh_gS {fs0 : FS} {u t} : (Pc.gS u t).Fresh fs0 ↔ True := Iff.rfl
@[simp] theorem Pc.fresh_gP {fs0 : FS} {u t} : (Pc.gP u t).Fresh fs0 ↔ True := Iff.rfl
@[simp] theorem Pc.fresh_gPx {fs0 : FS} {u} : (Pc.gPx u).Fresh fs0 ↔ True := Iff.rfl
@[simp] theorem Pc.fresh_gF {fs0 : FS} {u d} : (Pc.gF u d).Fresh fs0 ↔ True := Iff.rfl
@[simp] theorem Pc.fresh_gAcq {fs0 : FS} {u d} : (Pc.gAcq u d).Fresh fs0 ↔ True := Iff.rfl
@[simp] theorem Pc.fresh_gH2 {fs0 : FS} {u d} : (Pc.gH2 u d).Fresh fs0 ↔ True := Iff.rfl
@[simp] theorem Pc.fresh_gC {fs0 : FS} {u d} : (Pc.gC u d).Fresh fs0 ↔ True := Iff.rfl
@[simp] theorem Pc.fresh_gW {fs0 : FS} {u d t} : (Pc.gW u d t).Fresh fs0 ↔ (t.dir = d ∧ t.uri = u ∧ ∀ f0, fs0 d u = some f0 → f0.ver ≤ t.ver) := Iff.rfl
@[simp] theorem Pc.fresh_gM {fs0 : FS} {r} : (Pc.gM r).Fresh fs0 ↔ FreshRes r := Iff.rfl
@[simp] theorem Pc.fresh_gMd {fs0 : FS} {r l} : (Pc.gMd r l).Fresh fs0 ↔ FreshRes r := Iff.rfl
@[simp] theorem Pc.fresh_gP2 {fs0 : FS} {u} : (Pc.gP2 u).Fresh fs0 ↔ True := Iff.rfl
@[simp] theorem Pc.fresh_gRel {fs0 : FS} {r} : (Pc.gRel r).Fresh fs0 ↔ FreshRes r := Iff.rfl
@[simp] theorem Pc.fresh_rK {fs0 : FS} {t c k l u} : (Pc.rK t c k l u).Fresh fs0 ↔ True := Iff.rfl

@[simp] theorem Pc.fresh_gRelS {fs0 : FS} {u t} : (Pc.gRelS u t).Fresh fs0 ↔ True := Iff.rfl
@[simp] theorem Pc.fresh_aS {fs0 : FS} {k} : (Pc.aS k).Fresh fs0 ↔ True := Iff.rfl

/-- the snapshot `fs0` is a past state of the file system `fs` -/
def Past (fs0 fs : FS) : Prop :=
  ∀ d u f0, fs0 d u = some f0 → ∃ f, fs d u = some f ∧ f0.ver ≤ f.ver ∧ f0.mtime ≤ f.mtime

theorem Past.refl (fs : FS) : Past fs fs := fun _ _ f0 h => ⟨f0, h, Nat.le_refl _, Nat.le_refl _⟩

theorem Past.write {fs0 fs : FS} {clock : Nat} (h : Past fs0 fs) (hm : ∀ d u f, fs d u = some f → f.mtime ≤ clock)
    (d u : Nat) (g : Bool) : Past fs0 (writeFile fs d u g clock) := by
  intro d' u' f0 h0
  obtain ⟨f, hf, hv, hmt⟩ := h d' u' f0 h0
  obtain ⟨f', hf', hv', hm', _⟩ := writeFile_mono d u g clock hf
  exact ⟨f', hf', by omega, by have := hm' (hm _ _ _ hf); omega⟩

structure FreshInv (s : Sys) : Prop where
  mtime : ∀ d u f, s.sh.fs d u = some f → f.mtime ≤ s.sh.clock
  snap : ∀ t, Past (s.threads t).fs0 s.sh.fs
  pc : ∀ t, (s.threads t).pc.Fresh (s.threads t).fs0
  res : ∀ t, ∀ r ∈ (s.threads t).results, FreshRes r

theorem tstep_fs0 {cfg : Cfg} {tid : Tid} {sh sh' : Sh} {th th' : Thread}
    (h : tstep cfg tid sh th = some (sh', th')) :
    th'.fs0 = th.fs0 ∨ (th'.fs0 = sh.fs ∧ sh'.fs = sh.fs) := by
  tstep_cases h
  case h_2 =>
    startOp_cases h
    all_goals (first | (left; rfl) | (right; exact ⟨rfl, by simp⟩) | skip)
    all_goals (
      left
      rcases afterScan_cases _ _ _ _ _ _ _ with ⟨u, hh⟩ | ⟨k, rest, u, hh⟩ <;> rw [hh] <;> rfl)
  all_goals (first | (left; rfl) | skip)
  all_goals (
    left
    rcases afterScan_cases _ _ _ _ _ _ _ with ⟨u, hh⟩ | ⟨k, rest, u, hh⟩ <;> rw [hh] <;> rfl)

theorem fresh_ret {th : Thread} {r : Res} (hr : ∀ r ∈ th.results, FreshRes r) (h : FreshRes r) :
    ∀ r' ∈ (th.ret r).results, FreshRes r' := by
  intro r' hr'
  simp only [Thread.ret, List.mem_append, List.mem_singleton] at hr'
  rcases hr' with h' | rfl
  · exact hr _ h'
  · exact h

theorem freshRes_other {r : Res} (h : ∀ t b f, r ≠ .tmpl t b (some f)) : FreshRes r :=
  fun t b f e => absurd e (h t b f)

theorem fresh_afterScan {th : Thread} (hr : ∀ r ∈ th.results, FreshRes r)
    (memo : Nat → Nat → Option Nat) (t : Tmpl) (ctx : Nat) (kinds todo used : List Nat) :
    (th.afterScan (renderScan memo t ctx kinds todo used)).pc.Fresh
        (th.afterScan (renderScan memo t ctx kinds todo used)).fs0 ∧
      ∀ r ∈ (th.afterScan (renderScan memo t ctx kinds todo used)).results, FreshRes r := by
  rcases afterScan_cases th memo t ctx kinds todo used with ⟨u, h⟩ | ⟨k, rest, u, h⟩ <;> rw [h]
  · exact ⟨by simp, fresh_ret hr (freshRes_other (by simp))⟩
  · exact ⟨by simp, hr⟩

theorem freshRes_okRes_built {th : Thread} {t : Tmpl}
    (h : ∀ f0, th.fs0 t.dir t.uri = some f0 → f0.ver ≤ t.ver) : FreshRes (th.okRes t false) := by
  intro t' b f e
  simp only [Thread.okRes, Res.tmpl.injEq] at e
  obtain ⟨rfl, _, e⟩ := e
  exact Or.inl (h f e)

theorem freshRes_okRes_checked {th : Thread} {t : Tmpl} {fs : FS} {f : File} (hs : Past th.fs0 fs)
    (hf : fs t.dir t.uri = some f) (hm : f.mtime ≤ t.stamp) : FreshRes (th.okRes t false) := by
  intro t' b f0 e
  simp only [Thread.okRes, Res.tmpl.injEq] at e
  obtain ⟨rfl, _, e⟩ := e
  obtain ⟨f', hf', _, hmt⟩ := hs _ _ _ e
  rw [hf] at hf'
  simp at hf'
  subst hf'
  exact Or.inr (by omega)

theorem tstep_fresh {cfg : Cfg} {tid : Tid} {sh sh' : Sh} {th th' : Thread} (hchecks : cfg.checks = true)
    (h : tstep cfg tid sh th = some (sh', th'))
    (hs : Past th.fs0 sh.fs) (hp : th.pc.Fresh th.fs0) (hr : ∀ r ∈ th.results, FreshRes r) :
    th'.pc.Fresh th'.fs0 ∧ ∀ r ∈ th'.results, FreshRes r := by
  tstep_cases h
  case h_2 =>
    startOp_cases h
    all_goals (
      first
      | (apply fresh_afterScan; exact hr)
      | (exfalso; simp_all; done)
      | refine ⟨?_, ?_⟩)
    all_goals (
      first
      | exact hr
      | (show Pc.Fresh _ th.pc; rw [‹th.pc = Pc.idle›]; simp; done)
      | (simp; done)
      | (apply fresh_ret hr; apply freshRes_other; simp; done))
  all_goals (rw [‹th.pc = _›] at hp; try simp only [Pc.fresh_gW, Pc.fresh_gM, Pc.fresh_gMd, Pc.fresh_gRel] at hp)
  all_goals (
    first
    | exact fresh_afterScan hr _ _ _ _ _ _
    | refine ⟨?_, ?_⟩)
  all_goals (
    first
    | exact hr
    | exact hp
    | (simp; done)
    | (simp; exact hp)
    | (split <;> simp <;> exact hp)
    | (show Pc.Fresh _ th.pc; rw [‹th.pc = _›]; simp; exact hp)
    | exact fresh_ret hr hp
    | (apply fresh_ret hr; apply freshRes_other; simp; done)
    | (exfalso; simp_all; done)
    | exact fresh_ret hr (freshRes_okRes_checked hs ‹_› ‹_›)
    | (simp; obtain ⟨hd, hu, hv⟩ := hp; subst hd; subst hu; exact freshRes_okRes_built hv)
    | (simp; apply freshRes_other; simp; done)
    | (simp
       have hfs := ‹sh.fs _ _ = some _›
       intro f0 h0
       obtain ⟨f', hf', hv, _⟩ := hs _ _ _ h0
       rw [hfs] at hf'
       cases hf'
       exact hv))

theorem writeFile_mtime {fs : FS} {d u d' u' : Nat} {g : Bool} {now : Nat} {f' : File}
    (h : writeFile fs d u g now d' u' = some f') : f'.mtime = now ∨ fs d' u' = some f' := by
  unfold writeFile at h
  split at h
  · simp at h; left; rw [← h]
  · right; exact h

theorem past_step {cfg : Cfg} {tid : Tid} {sh sh' : Sh} {th th' : Thread} {x : FS}
    (h : tstep cfg tid sh th = some (sh', th'))
    (hm : ∀ d u f, sh.fs d u = some f → f.mtime ≤ sh.clock) (hx : Past x sh.fs) : Past x sh'.fs := by
  rcases tstep_ghost h with ⟨_, hf, _⟩ | ⟨_, hf, _⟩ | ⟨d, u, g, hf, _⟩ | ⟨_, _, _, _, _, _, _, _, hf, _⟩
  · rw [hf]; exact hx
  · rw [hf]; exact hx
  · rw [hf]; exact hx.write hm d u g
  · rw [hf]; exact hx

theorem mtime_step {cfg : Cfg} {tid : Tid} {sh sh' : Sh} {th th' : Thread}
    (h : tstep cfg tid sh th = some (sh', th'))
    (hm : ∀ d u f, sh.fs d u = some f → f.mtime ≤ sh.clock) :
    ∀ d u f, sh'.fs d u = some f → f.mtime ≤ sh'.clock := by
  rcases tstep_ghost h with ⟨hc, hf, _⟩ | ⟨hc, hf, _⟩ | ⟨d, u, g, hf, hc, _⟩ | ⟨_, _, _, _, _, _, _, _, hf, hc⟩
  · rw [hf, hc]; exact hm
  · rw [hf, hc]; intro d u f h'; have := hm d u f h'; omega
  · rw [hf, hc]
    intro d' u' f' h'
    rcases writeFile_mtime h' with e | e
    · omega
    · exact hm _ _ _ e
  · rw [hf, hc]; exact hm

theorem freshInv_init {s : Sys} (h : Init s) : FreshInv s where
  mtime := h.mtime
  snap := fun t => by rw [(h.threads t).2.2.2]; intro d u f0 h0; simp [emptyFS] at h0
  pc := fun t => by rw [(h.threads t).1]; simp
  res := fun t => by rw [(h.threads t).2.1]; simp

theorem freshInv_step {s s' : Sys} {tid : Tid} (hc : s.cfg.checks = true) (hi : FreshInv s)
    (h : step s tid = some s') : FreshInv s' := by
  obtain ⟨sh, th, ht, rfl⟩ := step_iff.1 h
  obtain ⟨hpc, hres⟩ := tstep_fresh hc ht (hi.snap tid) (hi.pc tid) (hi.res tid)
  refine ⟨mtime_step ht hi.mtime, fun t => ?_, fun t => ?_, fun t => ?_⟩
  · simp only [set_threads, set_sh]
    split
    · rcases tstep_fs0 ht with e | ⟨e1, e2⟩
      · rw [e]; exact past_step ht hi.mtime (hi.snap tid)
      · rw [e1, e2]; exact Past.refl _
    · exact past_step ht hi.mtime (hi.snap t)
  · simp only [set_threads]
    split
    · exact hpc
    · exact hi.pc t
  · simp only [set_threads]
    split
    · exact hres
    · exact hi.res t

theorem freshInv_reachable {s0 s : Sys} (h0 : Init s0) (hc : s0.cfg.checks = true) (hr : Reachable s0 s) :
    FreshInv s := by
  have : FreshInv s ∧ s.cfg = s0.cfg := by
    refine reachable_induction (P := fun s => FreshInv s ∧ s.cfg = s0.cfg) hr ⟨freshInv_init h0, rfl⟩ ?_
    intro s tid s' ih h
    exact ⟨freshInv_step (by rw [ih.2]; exact hc) ih.1 h, (step_cfg h).trans ih.2⟩
  exact this.1

end MakoModel.Conc
