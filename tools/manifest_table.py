"""Per-property entries of MANIFEST.json (edit here, then run tools/mkmanifest.py)."""
CHECKS = {
    "C09": {
        "text": "Lean theorems over all URI strings and all directory spellings: a URI accepted by the Template URI check resolves, for every normalised root, to the root itself or a path below it (component-wise), and the module path stays below module_directory; the path model (normpath/join/dirname/get_template/adjust_uri/Template.__init__) is compared with the real code on ~1.3M enumerated/random URIs per quick run, and a direct oracle on a real directory tree with secrets audits every file opened.",
        "note": "Trusted: Lean kernel, standard axioms only; posixpath is modelled and differentially checked, not verified; symlinks inside roots and Windows paths out of scope.",
        "technique": "Lean 4 proof (induction over path components) + differential correspondence with posixpath/TemplateLookup + audit-hook oracle on a real tree",
    },
}
_PENDING = "check under construction in this build round (model + theorems + correspondence not yet committed); not claimed yet"
NOT_APPLICABLE = {p: _PENDING for p in ["C%02d" % i for i in range(1, 21)]}
