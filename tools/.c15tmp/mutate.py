"""usage: mutate.py <name>  - scratch copy of mako with one mutation; runs ./check C15 with MAKO_REPO; restores Generated"""
import os, shutil, subprocess, sys, tempfile, json, time
MUT = {
 "direct-write": ('''        dest, name = tempfile.mkstemp(dir=os.path.dirname(outputpath))

        os.write(dest, source)
        os.close(dest)
        shutil.move(name, outputpath)''', '''        with open(outputpath, "wb") as fp:
            fp.write(source)'''),
 "le": ("os.stat(path)[stat.ST_MTIME] < filemtime", "os.stat(path)[stat.ST_MTIME] <= filemtime"),
 "gt": ("os.stat(path)[stat.ST_MTIME] < filemtime", "os.stat(path)[stat.ST_MTIME] > filemtime"),
 "no-magic": ("if module._magic_number != codegen.MAGIC_NUMBER:", "if False and module._magic_number != codegen.MAGIC_NUMBER:"),
 "no-magic-removed": ('''                if module._magic_number != codegen.MAGIC_NUMBER:
                    data = util.read_file(filename)
                    with _drop_expression_warnings():
                        _compile_module_file(
                            self, data, filename, path, self.module_writer
                        )
                    module = compat.load_module(self.module_id, path)
''', ""),
 "tmpdir": ("tempfile.mkstemp(dir=os.path.dirname(outputpath))", "tempfile.mkstemp()"),
 "fix-fdopen": ('''        os.write(dest, source)
        os.close(dest)
''', '''        with os.fdopen(dest, "wb") as fp:
            fp.write(source)
'''),
 "no-close-move-first": ('''        os.write(dest, source)
        os.close(dest)
        shutil.move(name, outputpath)''', '''        shutil.move(name, outputpath)
        os.write(dest, source)
        os.close(dest)'''),
 "hook-args": ("module_writer(source, outputpath)", "module_writer(outputpath, source)"),
 "none": ("MAGIC_NUMBER = 10", "MAGIC_NUMBER = 10"),
 "magic11": ("MAGIC_NUMBER = 10", "MAGIC_NUMBER = 11"),
 "tries": ("if tries > 5:", "if tries > 2:"),
}
name = sys.argv[1]
extra = sys.argv[2:]
d = tempfile.mkdtemp(prefix="c15mut_")
try:
    shutil.copytree("/repo/mako", d + "/mako")
    old, new = MUT[name]
    n = 0
    for f in ("template.py", "codegen.py", "util.py"):
        p = d + "/mako/" + f
        s = open(p).read()
        if old in s:
            n += s.count(old)
            open(p, "w").write(s.replace(old, new))
    assert n == 1 or name == "none", (name, n)
    env = dict(os.environ, MAKO_REPO=d)
    t0 = time.time()
    r = subprocess.run(["/verif/check", "C15", "--tier", "quick"] + extra, env=env, stdout=subprocess.PIPE, stderr=subprocess.STDOUT, text=True, cwd="/verif")
    lines = r.stdout.splitlines()
    print("== mutation", name, "exit", r.returncode, "wall %.0fs" % (time.time() - t0))
    for l in lines:
        if any(k in l for k in ("VIOLATION", "KNOWN", "regen", "done rc", "FAILED", "lake build MakoModel.Props")):
            print(l[:260])
    for l in lines:
        if l.startswith("VIOLATION"):
            rp = l.split("replay=")[1].split()[0]
            j = json.load(open(rp))
            print("  replay kind:", j.get("kind"), "site:", j.get("site"), "case:", json.dumps(j.get("case"))[:300])
            print("  detail:", str(j.get("detail"))[:300])
            print("  no_longer_checks:", j.get("no_longer_checks"))
            for b in j.get("broken", [])[:6]:
                print("  broken:", b["what"], "|", str(b["detail"])[:500].replace("\n", " / "))
            if j.get("kind") == "failing-input":
                r2 = subprocess.run(["/verif/check", "C15", "--replay", rp], env=env, stdout=subprocess.PIPE, stderr=subprocess.STDOUT, text=True, cwd="/verif")
                print("  replay run:", r2.stdout.splitlines()[-1][:200], "exit", r2.returncode)
finally:
    shutil.rmtree(d, ignore_errors=True)
    subprocess.run(["/venv/bin/python", "/verif/tools/regen.py", "ModFile"], cwd="/verif/tools", env=dict(os.environ, MAKO_REPO="/repo"))
    subprocess.run("cd /verif/lean && flock .lake/verif.lock lake build MakoModel.Props.C15 makodrv | tail -1", shell=True)
