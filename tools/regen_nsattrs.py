"""Regen group "NsAttrs" (property C06).

`visitBlockTag`'s guard (`hasattr(context._data['parent'], '<block>')`) and every `self.X` / `next.X` /
`parent.X` / `local.X` go through ordinary Python attribute access on a `TemplateNamespace` object:
`TemplateNamespace.__getattr__` (the walk along `inherits` that the model describes) only runs for names
that are *not* found the normal way.  The names that are found the normal way are an implicit table of
/repo: the methods, properties, class attributes and instance attributes of `Namespace` and
`TemplateNamespace` in mako/runtime.py.  This group extracts them with `ast` (nothing imported):

  * every `def` in the two class bodies (methods and properties),
  * every class-level assignment target,
  * every `self.<name> = …` assignment inside the methods of the two classes,

into `nsAttrs : List (List Char)` of lean/MakoModel/Generated/NsAttrs.lean.  It also emits the facts behind the model of `<%include>` (`cleanPops`, `includeUsesCleanContext`,
`populateSetsSelfLocal`: the included template starts from a context without the includer's self/parent/next and
gets self/local of its own) and `nsAttrWalksAtCallTime` (does `_NSAttr`
keep a reference and walk `.inherits` at call time with hasattr, as the model transcribes? - a named obligation
of Props/C06.lean) and checks that
`TemplateNamespace.__getattr__` has the shape the model transcribes (callables, has_def, inherits, raise;
then setattr) as the Boolean `getattrShapeKnown`; an unknown shape is a RegenError (broken tie).
"""
from __future__ import annotations

import ast

from regen import group, RegenError, parse, find_class, find_func, HEADER


def lchar(c):
    o = ord(c)
    if 32 <= o < 127 and c not in "'\\":
        return "'%s'" % c
    return "Char.ofNat %d" % o


def lstr(s):
    return "[" + ", ".join(lchar(c) for c in s) + "]"


def class_names(cls):
    names = set()
    for node in cls.body:
        if isinstance(node, (ast.FunctionDef, ast.AsyncFunctionDef)):
            names.add(node.name)
            for sub in ast.walk(node):
                targets = []
                if isinstance(sub, ast.Assign):
                    targets = sub.targets
                elif isinstance(sub, (ast.AnnAssign, ast.AugAssign)):
                    targets = [sub.target]
                for t in targets:
                    for tt in ast.walk(t):
                        if isinstance(tt, ast.Attribute) and isinstance(tt.value, ast.Name) and tt.value.id == "self":
                            names.add(tt.attr)
        elif isinstance(node, ast.Assign):
            for t in node.targets:
                if isinstance(t, ast.Name):
                    names.add(t.id)
        elif isinstance(node, ast.AnnAssign) and isinstance(node.target, ast.Name):
            names.add(node.target.id)
    return names


def check_getattr_shape(fn, rel):
    """if key in self.callables / elif self.template.has_def(key) / elif self.inherits / else raise ; setattr ; return"""
    body = [n for n in fn.body if not (isinstance(n, ast.Expr) and isinstance(n.value, ast.Constant))]
    if len(body) != 3 or not isinstance(body[0], ast.If):
        raise RegenError("%s: TemplateNamespace.__getattr__ is not `if/elif/elif/else; setattr; return`" % rel)
    tests = []
    node = body[0]
    while True:
        tests.append(ast.unparse(node.test))
        if len(node.orelse) == 1 and isinstance(node.orelse[0], ast.If):
            node = node.orelse[0]
        else:
            last = node.orelse
            break
    want = ["key in self.callables", "self.template.has_def(key)", "self.inherits"]
    if tests != want:
        raise RegenError("%s: TemplateNamespace.__getattr__ tests are %r, the model transcribes %r" % (rel, tests, want))
    if not (len(last) == 1 and isinstance(last[0], ast.Raise)):
        raise RegenError("%s: TemplateNamespace.__getattr__ does not end in `else: raise`" % rel)
    if "setattr(self, key, val)" not in ast.unparse(body[1]):
        raise RegenError("%s: TemplateNamespace.__getattr__ no longer memoises with setattr" % rel)


NSATTR_INIT = "self.__parent = parent"
NSATTR_GETATTR = (
    "ns = self.__parent\n"
    "while ns:\n"
    "    if hasattr(ns.module, key):\n"
    "        return getattr(ns.module, key)\n"
    "    else:\n"
    "        ns = ns.inherits\n"
    "raise AttributeError(key)"
)


def nsattr_walks_at_call_time(tree, rel):
    """does `_NSAttr` keep only a reference to its namespace and walk `.inherits` inside `__getattr__`,
    testing each module with hasattr - the code the model's `nsattrF` transcribes?  (A copy of the chain taken
    in `__init__`, or a test other than hasattr, answers differently for reads made while the chain is being
    built resp. for attributes whose value is None.)"""
    cls = find_class(tree, "_NSAttr", rel)
    funcs = {n.name: n for n in cls.body if isinstance(n, ast.FunctionDef)}
    if set(funcs) != {"__init__", "__getattr__"}:
        return False

    def body_text(fn):
        body = [n for n in fn.body if not (isinstance(n, ast.Expr) and isinstance(n.value, ast.Constant))]
        return "\n".join(ast.unparse(n) for n in body)
    return body_text(funcs["__init__"]) == NSATTR_INIT and body_text(funcs["__getattr__"]) == NSATTR_GETATTR


def include_facts(tree, rel):
    """(names popped by Context._clean_inheritance_tokens, does _include_file hand that context to
    _populate_self_namespace, does _populate_self_namespace set self and local)"""
    ctx = find_class(tree, "Context", rel)
    clean = find_func(ctx.body, "_clean_inheritance_tokens", rel)
    pops = []
    for n in ast.walk(clean):
        if isinstance(n, ast.Call) and isinstance(n.func, ast.Attribute) and n.func.attr == "pop" and n.args \
                and isinstance(n.args[0], ast.Constant) and isinstance(n.args[0].value, str):
            pops.append(n.args[0].value)
    inc = find_func(tree.body, "_include_file", rel)
    # EVERY call of _populate_self_namespace in _include_file (and at least one) must be given the cleaned context
    pcalls = [n for n in ast.walk(inc) if isinstance(n, ast.Call) and ast.unparse(n.func) == "_populate_self_namespace"]
    uses = bool(pcalls) and all(n.args and ast.unparse(n.args[0]) == "context._clean_inheritance_tokens()" for n in pcalls)
    pop_fn = find_func(tree.body, "_populate_self_namespace", rel)
    sets = any(isinstance(n, ast.Assign) and sorted(ast.unparse(t) for t in n.targets) ==
               ["context._data['local']", "context._data['self']"] and ast.unparse(n.value) == "self_ns"
               for n in ast.walk(pop_fn))
    return pops, uses, sets


@group("NsAttrs")
def gen(repo) -> str:
    rel = "mako/runtime.py"
    tree = parse(repo, rel)
    ns = find_class(tree, "Namespace", rel)
    tns = find_class(tree, "TemplateNamespace", rel)
    bases = [ast.unparse(b) for b in tns.bases]
    if bases != ["Namespace"]:
        raise RegenError("%s: TemplateNamespace bases are %r, expected ['Namespace']" % (rel, bases))
    if ns.bases:
        raise RegenError("%s: Namespace has base classes %r" % (rel, [ast.unparse(b) for b in ns.bases]))
    check_getattr_shape(find_func(tns.body, "__getattr__", rel), rel)
    names = sorted(n for n in (class_names(ns) | class_names(tns)) if not (n.startswith("__") and n.endswith("__")))
    out = [HEADER % rel]
    out.append("namespace MakoModel.Generated.NsAttrs\n\n")
    out.append("/-- names that ordinary attribute access finds on a `TemplateNamespace` object (methods, properties,\n"
               "class and instance attributes of `Namespace`/`TemplateNamespace`), so that `__getattr__` never runs for them -/\n")
    out.append("def nsAttrs : List (List Char) :=\n  [ " + "\n  , ".join(lstr(n) for n in names) + " ]\n\n")
    out.append("/-- `_NSAttr` keeps a reference to its namespace (no copy of the chain) and `_NSAttr.__getattr__` walks\n"
               "`.inherits` at the time of the call, testing `hasattr(ns.module, key)` - the code `nsattrF` transcribes -/\n")
    out.append("def nsAttrWalksAtCallTime : Bool := %s\n\n" % ("true" if nsattr_walks_at_call_time(tree, rel) else "false"))
    pops, uses, sets = include_facts(tree, rel)
    out.append("/-- the keys `Context._clean_inheritance_tokens` removes from the copy it returns -/\n")
    out.append("def cleanPops : List (List Char) := [" + ", ".join(lstr(n) for n in pops) + "]\n\n")
    out.append("/-- every call of `_populate_self_namespace` in `_include_file` (there is at least one) is\n"
               "`_populate_self_namespace(context._clean_inheritance_tokens(), template)` -/\n")
    out.append("def includeUsesCleanContext : Bool := %s\n\n" % ("true" if uses else "false"))
    out.append("/-- `_populate_self_namespace` executes `context._data['self'] = context._data['local'] = self_ns` -/\n")
    out.append("def populateSetsSelfLocal : Bool := %s\n\n" % ("true" if sets else "false"))
    out.append("end MakoModel.Generated.NsAttrs\n")
    return "".join(out)
