"""Regen group "TbCfg": one structural fact of `RichTraceback._init` (mako/exceptions.py) that the C12 model
(`Tb.recordSources`) is parameterised by:

* `modsCacheKeepsSource` - the per-file cache `mods` keeps the template source: the tuple stored by
  `mods[filename] = (...)` contains the name `template_source`, and the tuple unpacked on a cache hit
  `(...) = mods[filename]` binds `template_source` at the same position (repair bcd673d).  Without it the
  records of alternating templates (A, B, A) carry another template's source.

* `moduleDirectoryPathAbsolute` / `moduleFilenamePathAbsolute` - in `Template.__init__` (mako/template.py) the module
  path of the `module_directory` branch / of the `module_filename` branch is `os.path.abspath(<expr>)` (that callee
  exactly) with `<expr>` mentioning `module_directory` / `module_filename`.
  CPython reports an imported module file (traceback frames, compile warnings) under its absolute path, while
  `ModuleInfo._modules` and `_translate_module_warnings` are keyed by the path `Template.__init__` computed.

A shape that is not recognised makes the flag `false` (the named obligation `mods_cache_keeps_source` in
Props/C12.lean then fails); only a missing class/function is a RegenError.
"""
from __future__ import annotations

import ast

from regen import group, find_class, find_func, parse, HEADER


def _is_mods_sub(n):
    return (isinstance(n, ast.Subscript) and isinstance(n.value, ast.Name) and n.value.id == "mods")


def _names(t):
    return [e.id if isinstance(e, ast.Name) else None for e in t.elts] if isinstance(t, ast.Tuple) else None


@group("TbCfg")
def gen(repo):
    rel = "mako/exceptions.py"
    tree = parse(repo, rel)
    init = find_func(find_class(tree, "RichTraceback", rel).body, "_init", rel)
    stored = unpacked = None
    n_store = n_unpack = 0
    for node in ast.walk(init):
        if isinstance(node, ast.Assign) and len(node.targets) == 1:
            if _is_mods_sub(node.targets[0]):
                n_store += 1
                stored = _names(node.value)
            elif _is_mods_sub(node.value):
                n_unpack += 1
                unpacked = _names(node.targets[0])
    keeps = bool(n_store == 1 and n_unpack == 1 and stored and unpacked and stored == unpacked
                 and "template_source" in stored)
    # Template.__init__: `if module_filename is not None: path = X  elif module_directory is not None: path = Y`
    rel2 = "mako/template.py"
    tinit = find_func(find_class(parse(repo, rel2), "Template", rel2).body, "__init__", rel2)

    def is_abspath(v, must_mention):
        """`os.path.abspath(<expr>)` - exactly that callee, one positional argument, no keywords - whose argument
        is the module path expression of the branch: it mentions the name `must_mention`"""
        f = v.func if isinstance(v, ast.Call) else None
        if not (isinstance(f, ast.Attribute) and f.attr == "abspath" and isinstance(f.value, ast.Attribute)
                and f.value.attr == "path" and isinstance(f.value.value, ast.Name) and f.value.value.id == "os"
                and len(v.args) == 1 and not v.keywords):
            return False
        return any(isinstance(n, ast.Name) and n.id == must_mention for n in ast.walk(v.args[0]))

    def test_name(t):
        # `<name> is not None`
        if (isinstance(t, ast.Compare) and isinstance(t.left, ast.Name) and len(t.ops) == 1
                and isinstance(t.ops[0], ast.IsNot)):
            return t.left.id
        return None

    def path_value(body):
        vals = [n.value for n in body if isinstance(n, ast.Assign) and len(n.targets) == 1
                and isinstance(n.targets[0], ast.Name) and n.targets[0].id == "path"]
        return vals[0] if len(vals) == 1 and len(body) == 1 else None
    dir_abs = file_abs = None
    for node in ast.walk(tinit):
        if isinstance(node, ast.If) and test_name(node.test) == "module_filename":
            v = path_value(node.body)
            if v is not None and file_abs is None:
                file_abs = is_abspath(v, "module_filename")
            if len(node.orelse) == 1 and isinstance(node.orelse[0], ast.If) \
                    and test_name(node.orelse[0].test) == "module_directory":
                v2 = path_value(node.orelse[0].body)
                if v2 is not None and dir_abs is None:
                    dir_abs = is_abspath(v2, "module_directory")
    return (HEADER % "mako/exceptions.py (RichTraceback._init), mako/template.py (Template.__init__)"
            + "namespace MakoModel.Generated.TbCfg\n\n"
            + "/-- the per-file cache `mods` of `_init` stores and restores `template_source`\n"
            + "    (stored: %s; unpacked on a hit: %s) -/\n" % (stored, unpacked)
            + "def modsCacheKeepsSource : Bool := %s\n\n" % ("true" if keeps else "false")
            + "/-- the module path of the `module_directory` branch of `Template.__init__` is `os.path.abspath(…)` -/\n"
            + "def moduleDirectoryPathAbsolute : Bool := %s\n\n" % ("true" if dir_abs else "false")
            + "/-- the module path of the `module_filename` branch (also `TemplateLookup(modulename_callable=…)`) is\n"
            + "    `os.path.abspath(…)` -/\n"
            + "def moduleFilenamePathAbsolute : Bool := %s\n\n" % ("true" if file_abs else "false")
            + "end MakoModel.Generated.TbCfg\n")
