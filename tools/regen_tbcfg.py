"""Regen group "TbCfg": one structural fact of `RichTraceback._init` (mako/exceptions.py) that the C12 model
(`Tb.recordSources`) is parameterised by:

* `modsCacheKeepsSource` - the per-file cache `mods` keeps the template source: the tuple stored by
  `mods[filename] = (...)` contains the name `template_source`, and the tuple unpacked on a cache hit
  `(...) = mods[filename]` binds `template_source` at the same position (repair bcd673d).  Without it the
  records of alternating templates (A, B, A) carry another template's source.

A shape that is not recognised makes the flag `false` (the named obligation `mods_cache_keeps_source` in
Props/C12.lean then fails); only a missing class/function is a RegenError.
"""
from __future__ import annotations

import ast

from regen import group, find_class, find_func, parse, HEADER


def _is_mods_sub(n):
    return (isinstance(n, ast.Subscript) and isinstance(n.value, ast.Name) and n.value.id == "mods")


def _names(t):
    return [e.id if isinstance(e, ast.Name) else None for e in t.elts] if isinstance(t, ast.Tuple) else None


@group("TbCfg")
def gen(repo):
    rel = "mako/exceptions.py"
    tree = parse(repo, rel)
    init = find_func(find_class(tree, "RichTraceback", rel).body, "_init", rel)
    stored = unpacked = None
    n_store = n_unpack = 0
    for node in ast.walk(init):
        if isinstance(node, ast.Assign) and len(node.targets) == 1:
            if _is_mods_sub(node.targets[0]):
                n_store += 1
                stored = _names(node.value)
            elif _is_mods_sub(node.value):
                n_unpack += 1
                unpacked = _names(node.targets[0])
    keeps = bool(n_store == 1 and n_unpack == 1 and stored and unpacked and stored == unpacked
                 and "template_source" in stored)
    return (HEADER % "mako/exceptions.py (RichTraceback._init)"
            + "namespace MakoModel.Generated.TbCfg\n\n"
            + "/-- the per-file cache `mods` of `_init` stores and restores `template_source`\n"
            + "    (stored: %s; unpacked on a hit: %s) -/\n" % (stored, unpacked)
            + "def modsCacheKeepsSource : Bool := %s\n\n" % ("true" if keeps else "false")
            + "end MakoModel.Generated.TbCfg\n")
