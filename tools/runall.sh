#!/bin/sh
# tools/runall.sh [quick|thorough] [seed] [ids…]   – run the registered checks one after another, print a summary
cd "$(dirname "$0")/.."
tier=${1:-quick}; seed=${2:-0}; shift 2 2>/dev/null
ids="$*"
[ -z "$ids" ] && ids=$(python3 -c "import json;print(' '.join(c['property_id'] for c in json.load(open('MANIFEST.json'))['checks']))")
mkdir -p /tmp/verif_runall
for id in $ids; do
  s=$(date +%s)
  VERIF_SEED=$seed ./check $id --tier $tier > /tmp/verif_runall/$id.$tier.$seed.log 2>&1
  rc=$?
  e=$(date +%s)
  echo "$id tier=$tier seed=$seed rc=$rc $((e-s))s $(grep -c '^KNOWN-FINDING' /tmp/verif_runall/$id.$tier.$seed.log) known $(grep '^VIOLATION' /tmp/verif_runall/$id.$tier.$seed.log | head -1)"
done
