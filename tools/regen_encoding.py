"""Regen group "Encoding": what the encoding model (C18) is parameterised by  ->  Generated/Encoding.lean

From the source text of /repo (Python `ast`, nothing imported from mako):
  mako/lexer.py
    * `codingRePattern`       - the pattern text of `Lexer._coding_re` (fingerprint: the model's matcher was written
                                against one pattern text; a different text never changes a verdict, it only makes the
                                harness run the regex correspondence at thorough size);
    * `defaultStr`            - the last operand of `m and m.group(1) or known_encoding or "utf-8"` (str input);
    * `defaultBytes`          - the last operand of `m.group(1) if m else known_encoding or "utf-8"` (bytes input);
    * `bomEncoding`, `bomCompare` - `parsed_encoding = "utf-8"` and the literal the comment is compared with in the BOM
                                branch: `m.group(1) != "utf-8"` (`bomCompareByCodec = false`), or, since the repair of
                                F-C18-1, `not self._is_utf8(m.group(1))` with `_is_utf8(n)` = `codecs.lookup(n).name == "utf-8"`,
                                False on LookupError (`bomCompareByCodec = true`, `bomCompare` = that canonical name);
    * `utf8Aliases`           - the names of a candidate list (every key/value of `encodings.aliases.aliases` in lower/upper/
                                title case with `_` and `-`, restricted to `[-\\w.]+`) that the *running interpreter's* codec
                                registry maps to utf-8: the tested instance of the model's abstract `Env.isUtf8`;
    * `sniffCodec`, `sniffErrors` - the arguments of the `.decode("utf-8", "ignore")` whose result `_coding_re` sees;
    * `decodeErrorCaught`     - the exception class of the `except` around `text.decode(parsed_encoding)`;
    * `bom`                   - the value of the `codecs.BOM_*` constant named in `text.startswith(codecs.BOM_UTF8)`
                                (the *name* comes from /repo, the bytes from the interpreter's `codecs` module);
    * `parseSkipsCodingComment` - `parse` calls `self.match_reg(self._coding_re)` before its loop;
    * `decodeBeforePreprocessors`, `skipAfterPreprocessors` - statement order of `Lexer.parse`: the assignment from
                                `self.decode_raw_stream(...)` stands before the `for … in self.preprocessor` loop (the
                                preprocessors get the decoded `str`), the comment skip after it;
  mako/template.py
    * `moduleFallback`        - `"ascii"` of `source.encode(lexer.encoding or "ascii")` in `_compile_module_file`;
    * `magicInText`, `magicInModuleFile` - the `generate_magic_comment=` keyword of `_compile_text` / `_compile_module_file`;
    * `sourceStripsBom`       - `ModuleInfo.source` drops a leading `codecs.BOM_UTF8` before decoding (repair of F-C18-3);
  mako/codegen.py
    * `magicPrefix`, `magicSuffix` - the format `"# -*- coding:%s -*-"` split at `%s`;
    * `namesWrittenAscii`     - `_template_filename` / `_template_uri` are written with `%a` (repair of F-C18-4), not `%r`;
    * `magicCommentFirst`     - the magic comment is the first thing `write_toplevel` hands to the printer (in source order,
                                before the `from __future__ import` line), `futurePrefix`/`futureSep` - the format of that line;
  mako/util.py
    * `pyMagicPattern`, `pyMagicVerbose` - `_PYTHON_MAGIC_COMMENT_re`; `parseEncodingBom` - the `"utf_8"` returned for a BOM;
    * `lineCodec`, `lineErrors` - `.decode("ascii", "ignore")` of the two lines `parse_encoding` looks at;
  body fingerprints (sha1 of `ast.dump`, i.e. insensitive to comments/formatting) of `decode_raw_stream`, `parse_encoding`,
  `read_python_file`, `FastEncodingBuffer.getvalue`, `runtime._render`, `ModuleInfo.source` - effort selection only.
"""
from __future__ import annotations

import ast
import codecs
import hashlib

from regen import group, RegenError, parse, find_class, find_func, module_assign, lean_str, lean_string, HEADER

LEX = "mako/lexer.py"
TPL = "mako/template.py"
CG = "mako/codegen.py"
UT = "mako/util.py"
RT = "mako/runtime.py"


def _str(node, what):
    if isinstance(node, ast.Constant) and isinstance(node.value, str):
        return node.value
    raise RegenError("%s: expected a string literal, found %s" % (what, ast.dump(node)[:100]))


def _re_compile_args(node, what):
    """(pattern, flags-dump) of `re.compile(<literal>[, flags])`"""
    if not (isinstance(node, ast.Call) and isinstance(node.func, ast.Attribute) and node.func.attr == "compile"
            and isinstance(node.func.value, ast.Name) and node.func.value.id == "re" and node.args):
        raise RegenError("%s is not re.compile(<literal>, …)" % what)
    pat = _str(node.args[0], what)
    flags = [ast.unparse(a) for a in node.args[1:]] + [k.arg + "=" + ast.unparse(k.value) for k in node.keywords]
    return pat, flags


def _class_assign(cls, name, rel):
    for n in cls.body:
        if isinstance(n, ast.Assign) and any(isinstance(t, ast.Name) and t.id == name for t in n.targets):
            return n.value
    raise RegenError("%s: class %s has no attribute %s" % (rel, cls.name, name))


def _last_or_operand(node, what):
    """`a or b or "lit"` (possibly below `x and y or …` / as the orelse of a conditional expression) -> "lit" """
    if isinstance(node, ast.IfExp):
        node = node.orelse
    if isinstance(node, ast.BoolOp) and isinstance(node.op, ast.Or):
        return _str(node.values[-1], what)
    raise RegenError("%s: expected `… or <literal>`, found %s" % (what, ast.dump(node)[:120]))


def _decode_calls(node):
    """all `X.decode(<lit>, <lit>)` calls below node -> [(codec, errors)]"""
    out = []
    for n in ast.walk(node):
        if (isinstance(n, ast.Call) and isinstance(n.func, ast.Attribute) and n.func.attr == "decode"
                and len(n.args) == 2 and all(isinstance(a, ast.Constant) and isinstance(a.value, str) for a in n.args)):
            out.append((n.args[0].value, n.args[1].value))
    return out


def _is_startswith_bom(test):
    """`text.startswith(codecs.BOM_X)` -> "BOM_X" """
    if (isinstance(test, ast.Call) and isinstance(test.func, ast.Attribute) and test.func.attr == "startswith"
            and len(test.args) == 1 and isinstance(test.args[0], ast.Attribute)
            and isinstance(test.args[0].value, ast.Name) and test.args[0].value.id == "codecs"):
        return test.args[0].attr
    return None


def _fp(node):
    return hashlib.sha1(ast.dump(node, annotate_fields=False, include_attributes=False).encode()).hexdigest()


def lexer_part(repo):
    tree = parse(repo, LEX)
    cls = find_class(tree, "Lexer", LEX)
    pat, flags = _re_compile_args(_class_assign(cls, "_coding_re", LEX), LEX + ": Lexer._coding_re")
    if flags:
        raise RegenError("%s: Lexer._coding_re is compiled with flags %s (the model has none)" % (LEX, flags))
    drs = find_func(cls.body, "decode_raw_stream", LEX)
    str_branch = bom_if = None
    for st in drs.body:
        if isinstance(st, ast.If):
            t = st.test
            if (isinstance(t, ast.Call) and isinstance(t.func, ast.Name) and t.func.id == "isinstance"
                    and len(t.args) == 2 and isinstance(t.args[1], ast.Name) and t.args[1].id == "str"):
                str_branch = st
            elif _is_startswith_bom(t):
                bom_if = st
    if str_branch is None or bom_if is None:
        raise RegenError("%s: decode_raw_stream lacks the `isinstance(text, str)` / `text.startswith(codecs.BOM…)` branches" % LEX)
    default_str = None
    for n in ast.walk(str_branch):
        if isinstance(n, ast.Assign) and isinstance(n.targets[0], ast.Name) and n.targets[0].id == "encoding":
            default_str = _last_or_operand(n.value, LEX + ": str branch of decode_raw_stream")
    if default_str is None:
        raise RegenError("%s: no `encoding = … or <literal>` in the str branch of decode_raw_stream" % LEX)
    if not any(isinstance(n, ast.Return) for n in str_branch.body):
        raise RegenError("%s: the str branch of decode_raw_stream does not return" % LEX)
    bom_name = _is_startswith_bom(bom_if.test)
    if not hasattr(codecs, bom_name) or not isinstance(getattr(codecs, bom_name), bytes):
        raise RegenError("codecs.%s is not a bytes constant" % bom_name)
    bom_enc = bom_cmp = None
    by_codec = False
    strips = False
    for n in bom_if.body:
        for m in ast.walk(n):
            if isinstance(m, ast.Assign) and isinstance(m.targets[0], ast.Name):
                if m.targets[0].id == "parsed_encoding":
                    bom_enc = _str(m.value, LEX + ": parsed_encoding in the BOM branch")
                if m.targets[0].id == "text" and isinstance(m.value, ast.Subscript):
                    strips = True
            if (isinstance(m, ast.Compare) and len(m.ops) == 1 and isinstance(m.ops[0], ast.NotEq)
                    and isinstance(m.comparators[0], ast.Constant) and isinstance(m.comparators[0].value, str)):
                bom_cmp = m.comparators[0].value
            if (isinstance(m, ast.UnaryOp) and isinstance(m.op, ast.Not) and isinstance(m.operand, ast.Call)
                    and isinstance(m.operand.func, ast.Attribute) and m.operand.func.attr == "_is_utf8"):
                by_codec = True
    if by_codec:
        isu = find_func(cls.body, "_is_utf8", LEX)
        names = [m.comparators[0].value for m in ast.walk(isu)
                 if isinstance(m, ast.Compare) and len(m.ops) == 1 and isinstance(m.ops[0], ast.Eq)
                 and isinstance(m.left, ast.Attribute) and m.left.attr == "name"
                 and isinstance(m.left.value, ast.Call) and ast.unparse(m.left.value.func) == "codecs.lookup"
                 and isinstance(m.comparators[0], ast.Constant) and isinstance(m.comparators[0].value, str)]
        handlers = [ast.unparse(h.type) for m in ast.walk(isu) if isinstance(m, ast.Try) for h in m.handlers if h.type is not None]
        falses = [m for m in ast.walk(isu) if isinstance(m, ast.Return) and isinstance(m.value, ast.Constant) and m.value.value is False]
        if len(names) != 1 or handlers != ["LookupError"] or not falses:
            raise RegenError("%s: Lexer._is_utf8 is not `codecs.lookup(x).name == <lit>` / `except LookupError: return False`" % LEX)
        bom_cmp = names[0]
    if bom_enc is None or bom_cmp is None:
        raise RegenError("%s: BOM branch lacks `parsed_encoding = <lit>` or `m.group(1) != <lit>` / `not self._is_utf8(m.group(1))`" % LEX)
    if not any(isinstance(m, ast.Raise) for n in bom_if.body for m in ast.walk(n)):
        raise RegenError("%s: BOM branch does not raise on a conflicting comment" % LEX)
    default_bytes = None
    for n in bom_if.orelse:
        for m in ast.walk(n):
            if isinstance(m, ast.Assign) and isinstance(m.targets[0], ast.Name) and m.targets[0].id == "parsed_encoding":
                default_bytes = _last_or_operand(m.value, LEX + ": else branch of decode_raw_stream")
    if default_bytes is None:
        raise RegenError("%s: no `parsed_encoding = m.group(1) if m else … or <literal>`" % LEX)
    sniffs = set()
    for n in ast.walk(drs):
        if (isinstance(n, ast.Call) and isinstance(n.func, ast.Attribute) and n.func.attr == "match"
                and isinstance(n.func.value, ast.Attribute) and n.func.value.attr == "_coding_re" and n.args):
            for d in _decode_calls(n.args[0]):
                sniffs.add(d)
    if len(sniffs) != 1:
        raise RegenError("%s: `_coding_re.match(text.decode(<codec>, <errors>))` not found exactly once in kind: %s" % (LEX, sorted(sniffs)))
    (sniff_codec, sniff_errors), = sniffs
    caught = None
    for n in ast.walk(drs):
        if isinstance(n, ast.Try):
            for h in n.handlers:
                if h.type is not None:
                    caught = ast.unparse(h.type)
    if caught is None:
        raise RegenError("%s: no `try: text.decode(parsed_encoding) except <Class>`" % LEX)
    prs = find_func(cls.body, "parse", LEX)
    skips = False
    for st in prs.body:
        if isinstance(st, ast.While):
            break
        for n in ast.walk(st):
            if (isinstance(n, ast.Call) and isinstance(n.func, ast.Attribute) and n.func.attr == "match_reg"
                    and n.args and isinstance(n.args[0], ast.Attribute) and n.args[0].attr == "_coding_re"):
                skips = True
    def stmt_index(pred):
        for i, st in enumerate(prs.body):
            if any(pred(n) for n in ast.walk(st)):
                return i
        return None
    i_dec = stmt_index(lambda n: isinstance(n, ast.Call) and isinstance(n.func, ast.Attribute) and n.func.attr == "decode_raw_stream")
    i_pre = stmt_index(lambda n: isinstance(n, ast.For) and isinstance(n.iter, ast.Attribute) and n.iter.attr == "preprocessor")
    i_skip = stmt_index(lambda n: isinstance(n, ast.Call) and isinstance(n.func, ast.Attribute) and n.func.attr == "match_reg"
                        and n.args and isinstance(n.args[0], ast.Attribute) and n.args[0].attr == "_coding_re")
    if i_dec is None or i_pre is None:
        raise RegenError("%s: Lexer.parse lacks the decode_raw_stream call or the preprocessor loop" % LEX)
    return dict(dec_first=i_dec < i_pre, skip_after=(i_skip is not None and i_skip > i_pre), pat=pat, default_str=default_str, default_bytes=default_bytes, bom_enc=bom_enc, bom_cmp=bom_cmp,
                bom=list(getattr(codecs, bom_name)), bom_name=bom_name, bom_strips=strips, by_codec=by_codec,
                sniff_codec=sniff_codec, sniff_errors=sniff_errors, caught=caught, skips=skips,
                fp_drs=_fp(drs))


def template_part(repo):
    tree = parse(repo, TPL)
    cmf = find_func(tree.body, "_compile_module_file", TPL)
    fallback = None
    for n in ast.walk(cmf):
        if (isinstance(n, ast.Call) and isinstance(n.func, ast.Attribute) and n.func.attr == "encode" and n.args
                and isinstance(n.args[0], ast.BoolOp) and isinstance(n.args[0].op, ast.Or)):
            first = n.args[0].values[0]
            if not (isinstance(first, ast.Attribute) and first.attr == "encoding"):
                raise RegenError("%s: _compile_module_file encodes with %s, not `lexer.encoding or …`" % (TPL, ast.unparse(n.args[0])))
            fallback = _str(n.args[0].values[-1], TPL + ": _compile_module_file fallback encoding")
    if fallback is None:
        raise RegenError("%s: _compile_module_file has no `source.encode(lexer.encoding or <lit>)`" % TPL)

    def magic_kw(fn):
        for n in ast.walk(fn):
            if isinstance(n, ast.Call) and isinstance(n.func, ast.Name) and n.func.id == "_compile":
                for k in n.keywords:
                    if k.arg == "generate_magic_comment" and isinstance(k.value, ast.Constant):
                        return bool(k.value.value)
        raise RegenError("%s: %s does not call _compile(generate_magic_comment=<literal>)" % (TPL, fn.name))
    mi = find_class(tree, "ModuleInfo", TPL)
    src_fn = find_func(mi.body, "source", TPL)
    src_strips = any(isinstance(n, ast.If) and _is_startswith_bom(n.test) for n in ast.walk(src_fn))
    return dict(src_strips=src_strips, fallback=fallback, magic_text=magic_kw(find_func(tree.body, "_compile_text", TPL)),
                magic_file=magic_kw(cmf), fp_source=_fp(find_func(mi.body, "source", TPL)))


def codegen_part(repo):
    tree = parse(repo, CG)
    fmt = None
    for n in ast.walk(tree):
        if (isinstance(n, ast.BinOp) and isinstance(n.op, ast.Mod) and isinstance(n.left, ast.Constant)
                and isinstance(n.left.value, str) and "coding" in n.left.value and n.left.value.lstrip().startswith("#")):
            if fmt is not None:
                raise RegenError("%s: more than one magic-comment format" % CG)
            fmt = n.left.value
            if not (isinstance(n.right, ast.Attribute) and n.right.attr == "source_encoding"):
                raise RegenError("%s: the magic comment is formatted with %s" % (CG, ast.unparse(n.right)))
    if fmt is None or fmt.count("%s") != 1 or "%" in fmt.replace("%s", ""):
        raise RegenError("%s: magic-comment format not found / not of the form `…%%s…`: %r" % (CG, fmt))
    pre, suf = fmt.split("%s")
    convs = {}
    for n in ast.walk(tree):
        if (isinstance(n, ast.BinOp) and isinstance(n.op, ast.Mod) and isinstance(n.left, ast.Constant)
                and isinstance(n.left.value, str)):
            for key in ("_template_filename = ", "_template_uri = "):
                if n.left.value.startswith(key):
                    convs[key] = n.left.value[len(key):]
    if set(convs) != {"_template_filename = ", "_template_uri = "} or not all(v in ("%r", "%a") for v in convs.values()):
        raise RegenError("%s: `_template_filename = %%r|%%a` / `_template_uri = %%r|%%a` not found: %s" % (CG, convs))
    if len(set(convs.values())) != 1:
        raise RegenError("%s: file name and uri are written with different conversions: %s" % (CG, convs))
    cls = find_class(tree, "_GenerateRenderMethod", CG)
    wt = find_func(cls.body, "write_toplevel", CG)
    calls = [n for n in ast.walk(wt) if isinstance(n, ast.Call) and isinstance(n.func, ast.Attribute)
             and isinstance(n.func.value, ast.Attribute) and n.func.value.attr == "printer"]
    calls.sort(key=lambda n: (n.lineno, n.col_offset))
    if not calls:
        raise RegenError("%s: write_toplevel never writes to self.printer" % CG)
    first = calls[0]
    magic_first = bool(first.args and isinstance(first.args[0], ast.BinOp) and isinstance(first.args[0].left, ast.Constant)
                       and first.args[0].left.value == fmt)
    fut = None
    for n in ast.walk(wt):
        if (isinstance(n, ast.BinOp) and isinstance(n.op, ast.Mod) and isinstance(n.left, ast.Constant)
                and isinstance(n.left.value, str) and "__future__" in n.left.value):
            seps = [m.func.value.value for m in ast.walk(n.right) if isinstance(m, ast.Call) and isinstance(m.func, ast.Attribute)
                    and m.func.attr == "join" and isinstance(m.func.value, ast.Constant)]
            if n.left.value.count("%s") != 1 or not n.left.value.endswith("%s") or len(seps) != 1:
                raise RegenError("%s: `from __future__ import %%s` line not of the expected form" % CG)
            fut = (n.left.value[:-2], seps[0])
    if fut is None:
        raise RegenError("%s: write_toplevel has no `from __future__ import` line" % CG)
    return dict(pre=pre, suf=suf, names_ascii=list(convs.values())[0] == "%a", magic_first=magic_first, fut=fut)


def util_part(repo):
    tree = parse(repo, UT)
    pat, flags = _re_compile_args(module_assign(tree, "_PYTHON_MAGIC_COMMENT_re", UT), UT + ": _PYTHON_MAGIC_COMMENT_re")
    verbose = flags == ["re.VERBOSE"] or flags == ["re.X"]
    if flags and not verbose:
        raise RegenError("%s: _PYTHON_MAGIC_COMMENT_re flags %s not understood" % (UT, flags))
    pe = find_func(tree.body, "parse_encoding", UT)
    decs = set(_decode_calls(pe))
    if len(decs) != 1:
        raise RegenError("%s: parse_encoding decodes its lines in more than one way: %s" % (UT, sorted(decs)))
    (lc, le), = decs
    bom_ret = None
    for n in ast.walk(pe):
        if isinstance(n, ast.If) and isinstance(n.test, ast.Name) and n.test.id == "has_bom":
            for m in n.body:
                if isinstance(m, ast.Return) and isinstance(m.value, ast.Constant) and isinstance(m.value.value, str):
                    bom_ret = m.value.value
    if bom_ret is None:
        raise RegenError("%s: parse_encoding has no `if has_bom: … return <literal>`" % UT)
    feb = find_class(tree, "FastEncodingBuffer", UT)
    return dict(pat=pat, verbose=verbose, line_codec=lc, line_errors=le, bom_ret=bom_ret,
                fp_pe=_fp(pe), fp_rpf=_fp(find_func(tree.body, "read_python_file", UT)),
                fp_getvalue=_fp(find_func(feb.body, "getvalue", UT)))


def runtime_part(repo):
    tree = parse(repo, RT)
    return dict(fp_render=_fp(find_func(tree.body, "_render", RT)))


def _b(x):
    return "true" if x else "false"


def utf8_alias_probe(canonical):
    """(names of the candidate list that the interpreter's registry maps to `canonical`, size of the candidate list)"""
    import encodings.aliases
    import re
    cands = set()
    for b in list(encodings.aliases.aliases) + list(set(encodings.aliases.aliases.values())) + ["utf_8", "latin_1", "ascii"]:
        for sep in ("_", "-"):
            n = b.replace("_", sep)
            cands.update([n, n.upper(), n.title()])
    cands = sorted(n for n in cands if re.fullmatch(r"[-\w.]+", n) and n.isascii())
    ok = []
    for n in cands:
        try:
            if codecs.lookup(n).name == canonical:
                ok.append(n)
        except LookupError:
            pass
    return ok, cands


@group("Encoding")
def gen(repo):
    lx = lexer_part(repo)
    tp = template_part(repo)
    cg = codegen_part(repo)
    ut = util_part(repo)
    rt = runtime_part(repo)
    for what, s in (("default encoding", lx["default_str"]), ("magic prefix", cg["pre"]), ("magic suffix", cg["suf"])):
        if any(ord(c) > 126 or ord(c) < 32 for c in s):
            raise RegenError("%s contains a non-printable / non-ASCII character: %r" % (what, s))
    o = [HEADER % ", ".join([LEX, TPL, CG, UT, RT]), "namespace MakoModel.Generated.Encoding", ""]

    def d(doc, name, typ, val):
        o.extend(["/-- %s -/" % doc, "def %s : %s := %s" % (name, typ, val), ""])
    d("pattern text of `Lexer._coding_re` (no flags)", "codingRePattern", "String", lean_string(lx["pat"]))
    d("`m and m.group(1) or known_encoding or <this>` - str input", "defaultStr", "List Char", lean_str(lx["default_str"]))
    d("`m.group(1) if m else known_encoding or <this>` - bytes input", "defaultBytes", "List Char", lean_str(lx["default_bytes"]))
    d("`parsed_encoding = <this>` in the BOM branch", "bomEncoding", "List Char", lean_str(lx["bom_enc"]))
    d("what the comment is compared with in the BOM branch: `m.group(1) != <this>`, or `codecs.lookup(m.group(1)).name == <this>`",
      "bomCompare", "List Char", lean_str(lx["bom_cmp"]))
    d("the BOM branch compares by codec (`not self._is_utf8(m.group(1))`), not by spelling", "bomCompareByCodec", "Bool", _b(lx["by_codec"]))
    aliases, cands = utf8_alias_probe(lx["bom_cmp"])
    d("names (of %d probed candidates built from encodings.aliases) that `codecs.lookup` of the running interpreter maps to %r"
      % (len(cands), lx["bom_cmp"]), "utf8Aliases", "List (List Char)", "[" + ", ".join(lean_str(a) for a in aliases) + "]")
    d("`codecs.%s` (the constant named in decode_raw_stream)" % lx["bom_name"], "bom", "List Nat",
      "[" + ", ".join(str(b) for b in lx["bom"]) + "]")
    d("the BOM branch drops the BOM from the text before decoding", "bomStripped", "Bool", _b(lx["bom_strips"]))
    d("codec of the `.decode(…)` whose result `_coding_re` is matched against (bytes input)", "sniffCodec", "String", lean_string(lx["sniff_codec"]))
    d("errors argument of that decode", "sniffErrors", "String", lean_string(lx["sniff_errors"]))
    d("exception class caught around `text.decode(parsed_encoding)`", "decodeErrorCaught", "String", lean_string(lx["caught"]))
    d("`parse` calls `self.match_reg(self._coding_re)` before its loop", "parseSkipsCodingComment", "Bool", _b(lx["skips"]))
    d("`parse` decodes (`decode_raw_stream`) before it runs the preprocessors", "decodeBeforePreprocessors", "Bool", _b(lx["dec_first"]))
    d("`parse` skips the coding comment after the preprocessors have run", "skipAfterPreprocessors", "Bool", _b(lx["skip_after"]))
    d("the magic comment is the first line `write_toplevel` writes (before `from __future__ import`)", "magicCommentFirst", "Bool", _b(cg["magic_first"]))
    d("`\"from __future__ import %s\"`, before `%s`", "futurePrefix", "List Char", lean_str(cg["fut"][0]))
    d("the separator the future imports are joined with", "futureSep", "List Char", lean_str(cg["fut"][1]))
    d("`source.encode(lexer.encoding or <this>)` in `_compile_module_file`", "moduleFallback", "List Char", lean_str(tp["fallback"]))
    d("`ModuleInfo.source` drops a leading BOM before decoding", "sourceStripsBom", "Bool", _b(tp["src_strips"]))
    d("`_template_filename` / `_template_uri` are written with %a", "namesWrittenAscii", "Bool", _b(cg["names_ascii"]))
    d("`generate_magic_comment` of `_compile_text`", "magicInText", "Bool", _b(tp["magic_text"]))
    d("`generate_magic_comment` of `_compile_module_file`", "magicInModuleFile", "Bool", _b(tp["magic_file"]))
    d("magic comment format of `write_toplevel`, before `%s`", "magicPrefix", "List Char", lean_str(cg["pre"]))
    d("… after `%s`", "magicSuffix", "List Char", lean_str(cg["suf"]))
    d("pattern text of `util._PYTHON_MAGIC_COMMENT_re`", "pyMagicPattern", "String", lean_string(ut["pat"]))
    d("… compiled with re.VERBOSE", "pyMagicVerbose", "Bool", _b(ut["verbose"]))
    d("codec of the `.decode(…)` of the two lines `parse_encoding` looks at", "lineCodec", "String", lean_string(ut["line_codec"]))
    d("errors argument of that decode", "lineErrors", "String", lean_string(ut["line_errors"]))
    d("what `parse_encoding` returns for a file with a BOM", "parseEncodingBom", "List Char", lean_str(ut["bom_ret"]))
    d("sha1 of `ast.dump` of the modelled functions (effort selection only, never a verdict)", "bodyFingerprints",
      "List (String × String)", "[" + ", ".join("(%s, %s)" % (lean_string(k), lean_string(v)) for k, v in [
          ("Lexer.decode_raw_stream", lx["fp_drs"]), ("util.parse_encoding", ut["fp_pe"]),
          ("util.read_python_file", ut["fp_rpf"]), ("FastEncodingBuffer.getvalue", ut["fp_getvalue"]),
          ("runtime._render", rt["fp_render"]), ("ModuleInfo.source", tp["fp_source"])]) + "]")
    o.extend(["end MakoModel.Generated.Encoding", ""])
    return "\n".join(o)
