#!/usr/bin/env python3
"""tools/confirm_seed.py <src_dir> <name> <property> "<needs>"  – confirm a proposed seeded change in a scratch worktree of
/repo (suite still passes 567; demo fails with the change and passes without) and store it as /verif/seeded/<name>/."""
import json, os, shutil, subprocess, sys, re
VERIF = os.path.dirname(os.path.dirname(os.path.abspath(__file__)))
src, name, prop, needs = sys.argv[1:5]
diff = os.path.join(src, name + ".diff"); demo = os.path.join(src, name + "_demo.py")
wt = "/tmp/confirm_" + name
def sh(c, **kw):
    return subprocess.run(c, shell=True, text=True, stdout=subprocess.PIPE, stderr=subprocess.STDOUT, **kw)
sh("git -C /repo worktree remove --force %s" % wt)
assert sh("git -C /repo worktree add -q %s HEAD" % wt).returncode == 0
ran = []
try:
    r0 = sh("/venv/bin/python %s %s" % (demo, wt), timeout=900); ran.append(("demo on unchanged tree", r0.returncode))
    assert sh("git -C %s apply %s" % (wt, diff)).returncode == 0, "patch does not apply"
    r1 = sh("/venv/bin/python %s %s" % (demo, wt), timeout=900); ran.append(("demo with change", r1.returncode))
    rs = sh("cd %s && PYTHONPATH=%s /venv/bin/python -m pytest -q -p no:cacheprovider test 2>&1 | tail -3" % (wt, wt), timeout=1800)
    m = re.search(r"(\d+) failed, (\d+) passed|(\d+) passed", rs.stdout)
    ran.append(("suite with change", rs.stdout.strip().splitlines()[-1]))
    ok = r0.returncode == 0 and r1.returncode != 0 and "567 passed" in rs.stdout
    print(name, "unchanged demo rc=%d, changed demo rc=%d, suite: %s => %s" % (r0.returncode, r1.returncode, rs.stdout.strip().splitlines()[-1], "CONFIRMED" if ok else "REJECTED"))
    if not ok:
        print(r1.stdout[-1500:]); sys.exit(1)
    d = os.path.join(VERIF, "seeded", name); os.makedirs(d, exist_ok=True)
    shutil.copy(diff, os.path.join(d, "patch.diff")); shutil.copy(demo, os.path.join(d, "demo.py"))
    json.dump({"id": name, "property": prop, "needs_to_manifest": needs,
               "confirmed": [{"what": a, "result": b} for a, b in ran],
               "demo_output_with_change": r1.stdout[-1200:],
               "how": "scratch worktree of /repo HEAD; git apply patch.diff; /venv/bin/python demo.py <worktree>; PYTHONPATH=<worktree> pytest test"},
              open(os.path.join(d, "meta.json"), "w"), indent=1)
finally:
    sh("rm -rf %s/test/templates/modules" % wt)
    sh("git -C /repo worktree remove --force %s" % wt)
