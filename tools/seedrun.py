#!/usr/bin/env python3
"""tools/seedrun.py [ids…] – apply each seeded change under /verif/seeded/<id>/patch.diff to /repo, run the
check(s) of the property it breaks (meta.json: "property", optional "also"), undo the change, and print
whether it was caught.  Refuses to run when /repo has local modifications."""
import json, os, signal, subprocess, sys, time
VERIF = os.path.dirname(os.path.dirname(os.path.abspath(__file__)))
REPO = os.environ.get("SEED_REPO") or os.environ.get("VP_RUN_REPO") or "/repo"   # a scratch checkout keeps /repo untouched

def sh(cmd, **kw):
    return subprocess.run(cmd, shell=True, text=True, stdout=subprocess.PIPE, stderr=subprocess.STDOUT, **kw)

def run_check(cmd, env, limit):
    """run one check in its own process group; on timeout kill the whole group (workers included)"""
    p = subprocess.Popen(cmd, shell=True, cwd=VERIF, env=env, text=True, stdout=subprocess.PIPE,
                         stderr=subprocess.STDOUT, start_new_session=True)
    try:
        out, _ = p.communicate(timeout=limit)
        return p.returncode, out
    except subprocess.TimeoutExpired:
        try:
            os.killpg(p.pid, signal.SIGKILL)
        except OSError:
            pass
        out, _ = p.communicate()
        return 124, out


def main():
    if sh("git -C %s status --porcelain --untracked-files=no" % REPO).stdout.strip():
        if os.path.realpath(REPO) == "/repo":
            print("refusing: /repo has local modifications"); return 2
        sh("git -C %s checkout -- ." % REPO)       # a scratch checkout left dirty by a killed run
    ids = sys.argv[1:] or sorted(os.listdir(os.path.join(VERIF, "seeded")))
    tier = os.environ.get("SEED_TIER", "quick")
    res = []
    for sid in ids:
        d = os.path.join(VERIF, "seeded", sid)
        meta = json.load(open(os.path.join(d, "meta.json")))
        props = [meta["property"]] + meta.get("also", [])
        r = sh("git -C %s apply %s" % (REPO, os.path.join(d, "patch.diff")))
        if r.returncode:
            print(sid, "patch does not apply:", r.stdout); res.append((sid, "no-apply")); continue
        try:
            for p in props:
                t0 = time.time()
                rc, out = run_check("./check %s --tier %s" % (p, tier), dict(os.environ, MAKO_REPO=REPO),
                                    int(os.environ.get("SEED_TIMEOUT", "1500")))
                viol = [l for l in out.splitlines() if l.startswith("VIOLATION")]
                print("%s -> check %s rc=%d %.0fs %s" % (sid, p, rc, time.time() - t0, viol[:1]))
                res.append((sid, p, rc, viol[:1]))
        finally:
            sh("git -C %s checkout -- ." % REPO)
            sh("rm -rf %s/test/templates/modules" % REPO)
    missed = [x for x in res if len(x) == 4 and x[2] != 1]
    print("caught %d / %d runs; missed: %s" % (len([x for x in res if len(x) == 4 and x[2] == 1]), len([x for x in res if len(x) == 4]), missed))
    return 0

sys.exit(main())
