"""Regen group "NsFlow" (property C07): facts of the *shape* of two pieces of code the namespace/include model
(lean/MakoModel/Namespace/Model.lean) transcribes.

mako/codegen.py `write_variable_declares`, the branch for an identifier that is neither a def nor a namespace, when
the template has `<%namespace import=…>`:
  * `nonStrictImportFirst` - the single line emitted without strict_undefined is
    `X = _import_ns.get('X', context.get('X', UNDEFINED))` (the import dictionary is asked first, the context is only
    the default);
  * `strictImportFirst`    - of the lines emitted with strict_undefined, `X = _import_ns.get('X', UNDEFINED)` comes
    before `X = context['X']`, and the latter sits inside the `if X is UNDEFINED:` / `try:`;
  * `strictRaisesNameError` - the `except KeyError:` of that branch raises NameError.
mako/runtime.py `_include_file`:
  * `includeCleansTokens` - `_populate_self_namespace` is given `context._clean_inheritance_tokens()`;
  * `includeCallSites` - number of calls of the returned render callable (with and without include_error_handler);
  * `includeCallSitesUseCleanContext` - every one of them passes the context returned by `_populate_self_namespace`
    (never the includer's `context`);
  * `includeKwargsFromIncluderData` - `_kwargs_for_include(callable_, context._data, **kwargs)`.
A shape the translator cannot read raises RegenError (a broken tie).
"""
from __future__ import annotations

import ast

from regen import group, RegenError, parse, find_class, find_func, HEADER


def lb(b):
    return "true" if b else "false"


def _str_parts(node):
    """the format string of `"…" % (…)` / a plain constant / implicit concatenation; None for `None`"""
    if isinstance(node, ast.BinOp) and isinstance(node.op, ast.Mod):
        node = node.left
    if isinstance(node, ast.Constant):
        return node.value
    return "<?>"


def _emitted(call):
    """strings given to printer.writeline / printer.writelines"""
    return [_str_parts(a) for a in call.args]


def _printer_calls(stmts):
    out = []
    for st in stmts:
        for n in ast.walk(st):
            if isinstance(n, ast.Call) and isinstance(n.func, ast.Attribute) and n.func.attr in ("writeline", "writelines"):
                out.append(n)
    return out


def _is_attr_chain(node, *names):
    """self.compiler.strict_undefined -> ('self','compiler','strict_undefined')"""
    got = []
    while isinstance(node, ast.Attribute):
        got.append(node.attr)
        node = node.value
    if isinstance(node, ast.Name):
        got.append(node.id)
    return tuple(reversed(got)) == names


def _mentions(node, text):
    return text in ast.dump(node)


@group("NsFlow")
def gen(repo) -> str:
    rel_c, rel_r = "mako/codegen.py", "mako/runtime.py"
    tc, tr = parse(repo, rel_c), parse(repo, rel_r)
    cls = find_class(tc, "_GenerateRenderMethod", rel_c)
    wvd = find_func(cls.body, "write_variable_declares", rel_c)
    # the `if getattr(self.compiler, "has_ns_imports", False):` whose body tests strict_undefined
    target = None
    for n in ast.walk(wvd):
        if isinstance(n, ast.If) and _mentions(n.test, "has_ns_imports") and n.body and isinstance(n.body[0], ast.If) \
                and _is_attr_chain(n.body[0].test, "self", "compiler", "strict_undefined"):
            target = n.body[0]
    if target is None:
        raise RegenError("%s: write_variable_declares: no `if has_ns_imports: if strict_undefined:` branch" % rel_c)
    strict_calls, plain_calls = _printer_calls(target.body), _printer_calls(target.orelse)
    if len(strict_calls) != 1 or len(plain_calls) != 1:
        raise RegenError("%s: write_variable_declares: expected one writelines per import branch" % rel_c)
    strict_lines = _emitted(strict_calls[0])
    plain_lines = _emitted(plain_calls[0])
    if len(plain_lines) != 1 or not isinstance(plain_lines[0], str):
        raise RegenError("%s: non-strict import branch is not a single line: %r" % (rel_c, plain_lines))
    pl = plain_lines[0]
    non_strict_first = pl.startswith("%s = _import_ns.get(%r, context.get(%r, UNDEFINED))")
    idx = {k: None for k in ("imp", "undef", "try", "ctx", "except", "raise")}
    for i, l in enumerate(strict_lines):
        if not isinstance(l, str):
            continue
        if l.startswith("%s = _import_ns.get(") and idx["imp"] is None:
            idx["imp"] = i
        elif l.startswith("if %s is UNDEFINED") and idx["undef"] is None:
            idx["undef"] = i
        elif l == "try:" and idx["try"] is None:
            idx["try"] = i
        elif l.startswith("%s = context[") and idx["ctx"] is None:
            idx["ctx"] = i
        elif l.startswith("except KeyError") and idx["except"] is None:
            idx["except"] = i
        elif l.startswith("raise NameError") and idx["raise"] is None:
            idx["raise"] = i
    if idx["imp"] is None or idx["ctx"] is None:
        raise RegenError("%s: strict import branch: lines not recognised: %r" % (rel_c, strict_lines))
    order = [idx[k] for k in ("imp", "undef", "try", "ctx", "except", "raise")]
    strict_first = all(o is not None for o in order) and order == sorted(order)
    strict_raises = idx["except"] is not None and idx["raise"] is not None and idx["raise"] > idx["except"]

    inc = find_func(tr.body, "_include_file", rel_r)
    clean_name = None
    callable_name = None
    cleans = False
    for n in ast.walk(inc):
        if isinstance(n, ast.Assign) and isinstance(n.value, ast.Call) and getattr(n.value.func, "id", None) == "_populate_self_namespace":
            t = n.targets[0]
            if isinstance(t, ast.Tuple) and len(t.elts) == 2 and all(isinstance(e, ast.Name) for e in t.elts):
                callable_name, clean_name = t.elts[0].id, t.elts[1].id
            a0 = n.value.args[0] if n.value.args else None
            cleans = isinstance(a0, ast.Call) and isinstance(a0.func, ast.Attribute) and a0.func.attr == "_clean_inheritance_tokens" \
                and isinstance(a0.func.value, ast.Name) and a0.func.value.id == "context"
    if callable_name is None:
        raise RegenError("%s: _include_file: no `callable_, ctx = _populate_self_namespace(…)`" % rel_r)
    sites = [n for n in ast.walk(inc) if isinstance(n, ast.Call) and isinstance(n.func, ast.Name) and n.func.id == callable_name]
    if not sites:
        raise RegenError("%s: _include_file never calls %s" % (rel_r, callable_name))
    use_clean = all(s.args and isinstance(s.args[0], ast.Name) and s.args[0].id == clean_name for s in sites)
    kw_data = False
    for n in ast.walk(inc):
        if isinstance(n, ast.Call) and getattr(n.func, "id", None) == "_kwargs_for_include" and len(n.args) >= 2:
            a = n.args[1]
            kw_data = isinstance(a, ast.Attribute) and a.attr == "_data" and isinstance(a.value, ast.Name) and a.value.id == "context"
    out = [HEADER % "mako/codegen.py (write_variable_declares), mako/runtime.py (_include_file)", "",
           "namespace MakoModel.Generated.NsFlow", "",
           "/-- without strict_undefined: `X = _import_ns.get('X', context.get('X', UNDEFINED))` -/",
           "def nonStrictImportFirst : Bool := %s" % lb(non_strict_first),
           "/-- with strict_undefined: `_import_ns.get` first, `context['X']` only under `if X is UNDEFINED: try:` -/",
           "def strictImportFirst : Bool := %s" % lb(strict_first),
           "/-- … and the `except KeyError:` raises NameError -/",
           "def strictRaisesNameError : Bool := %s" % lb(strict_raises),
           "/-- `_include_file`: `_populate_self_namespace(context._clean_inheritance_tokens(), template)` -/",
           "def includeCleansTokens : Bool := %s" % lb(cleans),
           "/-- `_include_file`: number of calls of the target's render callable -/",
           "def includeCallSites : Nat := %d" % len(sites),
           "/-- … all of them with the context returned by `_populate_self_namespace` -/",
           "def includeCallSitesUseCleanContext : Bool := %s" % lb(use_clean),
           "/-- `_kwargs_for_include(callable_, context._data, **kwargs)`: the includer's data -/",
           "def includeKwargsFromIncluderData : Bool := %s" % lb(kw_data),
           "", "end MakoModel.Generated.NsFlow", ""]
    return "\n".join(out)
