"""Regen group "Conc": the shape of the lazily initialised SHARED memo cells that concurrent renders / compiles
touch (property C16, `renders_independent`).  The interleaving model writes such a cell in ONE step with the
complete value ("check-then-set, written only with the value any other writer would write").  That is only
faithful if the real code makes the value visible to other threads when it is complete, i.e. the statement that
stores the object into the shared container is not followed, in its block, by statements that still mutate the
stored object.  For every cell this group records whether that holds; `Props/C16.lean` proves by `decide` that it
holds for all of them, so an edit that publishes the object first and fills it afterwards breaks a named obligation.
A second list (`importCells`) records the one first-use cell whose object the import machinery makes (see below), a
third (`lruEntryCells`) that an entry of the bounded collection (`LRUCache.__setitem__`), which `get_template` reads
without the mutex, is inserted together with its value.

Cells (file, function, shared container):
  mako/util.py      memoized_property.__get__   obj.__dict__[name]      (Template.cache, Template.reserved_names)
  mako/cache.py     Cache._get_cache_kw         self._def_regions[defname]
  mako/lexer.py     Lexer.match                 _regexp_cache[(regexp, flags)]
  mako/lookup.py    TemplateLookup.adjust_uri   self._uri_cache[key]
  mako/template.py  ModuleInfo.__init__         self._modules[...]
  mako/runtime.py   ModuleNamespace.__init__    the module of <%namespace module="…"/>: first use = first import.  The
                    module object is complete for other threads only if it is obtained through the import machinery
                    (`__import__` / `importlib.import_module`, which hold the per-module import lock until the module body
                    has run); a read of `sys.modules` hands out a module another thread is still initialising.
"""
from __future__ import annotations

import ast

from regen import group, RegenError, parse, find_class, find_func, HEADER, lean_string

MUTATORS = {"update", "setdefault", "pop", "popitem", "clear", "append", "extend", "insert", "remove", "add",
            "discard", "sort", "reverse", "__setitem__", "__delitem__"}


def _is_container(node, name):
    """`self.<name>`, `obj.<name>`, `<name>` (module global)"""
    if isinstance(node, ast.Attribute) and node.attr == name:
        return True
    return isinstance(node, ast.Name) and node.id == name


def _published_names(stmt, container):
    """names of local objects that `stmt` makes visible through the shared container; None if it publishes nothing"""
    names = None
    for node in ast.walk(stmt):
        if isinstance(node, ast.Assign):
            if any(isinstance(t, ast.Subscript) and _is_container(t.value, container) for t in node.targets):
                names = set() if names is None else names
                for t in node.targets:
                    if isinstance(t, ast.Name):
                        names.add(t.id)
                if isinstance(node.value, ast.Name):
                    names.add(node.value.id)
        if isinstance(node, ast.Call) and isinstance(node.func, ast.Attribute) and node.func.attr == "setdefault" \
                and _is_container(node.func.value, container):
            names = set() if names is None else names
            if len(node.args) > 1 and isinstance(node.args[1], ast.Name):
                names.add(node.args[1].id)
            # the object handed back by setdefault is the shared one
            if isinstance(stmt, ast.Assign) and stmt.value is node:
                for t in stmt.targets:
                    if isinstance(t, ast.Name):
                        names.add(t.id)
    return names


def _mutates(stmt, names):
    for node in ast.walk(stmt):
        if isinstance(node, ast.Call) and isinstance(node.func, ast.Attribute) and node.func.attr in MUTATORS \
                and isinstance(node.func.value, ast.Name) and node.func.value.id in names:
            return True
        if isinstance(node, (ast.Assign, ast.AugAssign, ast.Delete)):
            targets = node.targets if isinstance(node, (ast.Assign, ast.Delete)) else [node.target]
            for t in targets:
                if isinstance(t, (ast.Subscript, ast.Attribute)) and isinstance(t.value, ast.Name) \
                        and t.value.id in names:
                    return True
    return False


def _is_import_call(node):
    """`__import__(…)`, `importlib.import_module(…)`, `import_module(…)`, `importlib.__import__(…)`: the calls that
    run the import machinery, which holds the per-module import lock until the module body has been executed"""
    if not isinstance(node, ast.Call):
        return False
    f = node.func
    if isinstance(f, ast.Name) and f.id in ("__import__", "import_module"):
        return True
    return isinstance(f, ast.Attribute) and f.attr in ("import_module", "__import__")


def _reads_sys_modules(tree_or_fn, aliases):
    for node in ast.walk(tree_or_fn):
        if isinstance(node, ast.Attribute) and node.attr == "modules" and isinstance(node.value, ast.Name) \
                and node.value.id == "sys":
            return True
        if isinstance(node, ast.Name) and node.id in aliases:
            return True
    return False


def imports_through_lock(module_tree, fn, what, attr="module"):
    """True iff every value the function stores into `self.<attr>` comes, possibly through a chain of
    `getattr(<such a value>, …)`, from an import-machinery CALL, every other assignment to the local names involved is
    of those two forms too, and the function reads `sys.modules` nowhere (directly or through a module-level alias).
    `import x` statements do not count: they bind a name, they do not deliver the module named by a string."""
    aliases = set()
    for node in module_tree.body:
        if isinstance(node, ast.ImportFrom) and node.module == "sys":
            for a in node.names:
                if a.name == "modules":
                    aliases.add(a.asname or a.name)
        if isinstance(node, ast.Assign) and isinstance(node.value, ast.Attribute) and node.value.attr == "modules" \
                and isinstance(node.value.value, ast.Name) and node.value.value.id == "sys":
            for t in node.targets:
                if isinstance(t, ast.Name):
                    aliases.add(t.id)
    if _reads_sys_modules(fn, aliases):
        return False
    stores = []          # value nodes assigned to self.<attr>
    assigns = {}         # local name -> [value nodes]
    for node in ast.walk(fn):
        if isinstance(node, ast.Assign):
            for t in node.targets:
                if isinstance(t, ast.Attribute) and t.attr == attr and isinstance(t.value, ast.Name) \
                        and t.value.id == "self":
                    stores.append(node.value)
                elif isinstance(t, ast.Name):
                    assigns.setdefault(t.id, []).append(node.value)
        elif isinstance(node, (ast.AugAssign, ast.AnnAssign, ast.NamedExpr)):
            t = node.target
            if isinstance(t, ast.Name):
                assigns.setdefault(t.id, []).append(getattr(node, "value", None))
        elif isinstance(node, (ast.For, ast.With, ast.ExceptHandler)):
            pass
    if not stores:
        raise RegenError("%s: no assignment to self.%s any more" % (what, attr))

    good_names = set()
    changed = True

    def good_value(v):
        if v is None:
            return False
        if _is_import_call(v):
            return True
        if isinstance(v, ast.Name):
            return v.id in good_names
        if isinstance(v, ast.Call) and isinstance(v.func, ast.Name) and v.func.id == "getattr" and v.args:
            return good_value(v.args[0])
        return False
    while changed:
        changed = False
        for name, values in assigns.items():
            if name in good_names:
                continue
            # optimistic for self-reference (`mod = getattr(mod, token)`): assume good, then verify
            good_names.add(name)
            if all(good_value(v) for v in values) and any(_is_import_call(v) for v in values):
                changed = True
            else:
                good_names.discard(name)
    return all(good_value(v) for v in stores)


def lru_entry_published_with_value(lru, rel):
    """`LRUCache.__setitem__`: True iff every object the method INSERTS into the underlying dict
    (`dict.__setitem__(self, k, X)`, `dict.setdefault(self, k, X)`, `super().__setitem__(k, X)`) is an
    `_Item(<key>, <the method's value argument>)` – the item carries its value when it becomes visible to the
    lock-free readers of `get_template` – and `_Item.__init__` stores that argument into `self.value`.
    (An existing item whose `.value` is replaced is already published with a complete value.)"""
    fn = find_func(lru.body, "__setitem__", rel)
    params = [a.arg for a in fn.args.args]
    if len(params) < 3:
        raise RegenError("%s: LRUCache.__setitem__ has no (self, key, value) parameters" % rel)
    value_param = params[2]
    item_cls = None
    for node in lru.body:
        if isinstance(node, ast.ClassDef) and node.name == "_Item":
            item_cls = node
    if item_cls is None:
        raise RegenError("%s: LRUCache._Item not found" % rel)
    init = find_func(item_cls.body, "__init__", rel)
    iparams = [a.arg for a in init.args.args]
    init_ok = len(iparams) >= 3 and any(
        isinstance(n, ast.Assign) and any(isinstance(t, ast.Attribute) and t.attr == "value"
                                          and isinstance(t.value, ast.Name) and t.value.id == iparams[0]
                                          for t in n.targets)
        and isinstance(n.value, ast.Name) and n.value.id == iparams[2]
        for n in ast.walk(init))

    def is_item_call(v):
        return (isinstance(v, ast.Call) and isinstance(v.func, ast.Attribute) and v.func.attr == "_Item"
                and len(v.args) >= 2 and isinstance(v.args[1], ast.Name) and v.args[1].id == value_param)

    def is_existing(v):
        # `dict.get(self, key)` / `dict.__getitem__(self, key)`: an entry that is already in the dict
        return (isinstance(v, ast.Call) and isinstance(v.func, ast.Attribute) and v.func.attr in ("get", "__getitem__")
                and isinstance(v.func.value, ast.Name) and v.func.value.id == "dict" and len(v.args) <= 2)
    assigns = {}
    for n in ast.walk(fn):
        if isinstance(n, ast.Assign):
            for t in n.targets:
                if isinstance(t, ast.Name):
                    assigns.setdefault(t.id, []).append(n.value)
    stored = []
    for n in ast.walk(fn):
        if isinstance(n, ast.Call) and isinstance(n.func, ast.Attribute) and n.func.attr in ("__setitem__", "setdefault"):
            base = n.func.value
            if isinstance(base, ast.Name) and base.id == "dict" and len(n.args) >= 3:
                stored.append(n.args[2])
            elif isinstance(base, ast.Call) and isinstance(base.func, ast.Name) and base.func.id == "super" \
                    and len(n.args) >= 2:
                stored.append(n.args[1])
        if isinstance(n, ast.Call) and isinstance(n.func, ast.Attribute) and n.func.attr == "update" \
                and isinstance(n.func.value, ast.Name) and n.func.value.id == "dict":
            stored.append(None)            # an insertion whose objects the translator cannot see
    if not stored:
        raise RegenError("%s: LRUCache.__setitem__ no longer inserts into the dict" % rel)

    def complete(v):
        if v is None:
            return False
        if is_item_call(v):
            return True
        if isinstance(v, ast.Name):
            vals = assigns.get(v.id, [])
            return bool(vals) and all(is_item_call(x) or is_existing(x) for x in vals) and any(is_item_call(x) for x in vals)
        return False
    return init_ok and all(complete(v) for v in stored)


def stored_complete(fn, container, what):
    """True iff no statement after a publishing statement (in the same block, or in an enclosing block after it)
    mutates the published object.  Raises when the function publishes nothing into `container`."""
    found = [False]
    ok = [True]

    def walk_block(body, pending):
        # pending: names published earlier in an enclosing block
        pending = set(pending)
        for stmt in body:
            if pending and not isinstance(stmt, (ast.If, ast.Try, ast.For, ast.While, ast.With)) \
                    and _mutates(stmt, pending):
                ok[0] = False
            inner_blocks = []
            for field in ("body", "orelse", "finalbody"):
                b = getattr(stmt, field, None)
                if isinstance(b, list) and b and isinstance(b[0], ast.stmt):
                    inner_blocks.append(b)
            for h in getattr(stmt, "handlers", []) or []:
                inner_blocks.append(h.body)
            if inner_blocks:
                published_inside = set()
                for b in inner_blocks:
                    published_inside |= walk_block(b, pending)
                # a test expression may itself publish (not the shapes we know)
                pending |= published_inside
            else:
                names = _published_names(stmt, container)
                if names is not None:
                    found[0] = True
                    pending |= names
                elif isinstance(stmt, ast.Assign):
                    # `x = <new object>` rebinds the local name: later mutations of x no longer touch the shared object
                    for t in stmt.targets:
                        if isinstance(t, ast.Name):
                            pending.discard(t.id)
        return pending

    walk_block(fn.body, set())
    if not found[0]:
        raise RegenError("%s: no statement stores into %s any more" % (what, container))
    return ok[0]


@group("Conc")
def gen(repo) -> str:
    cells = []
    tu = parse(repo, "mako/util.py")
    mp = find_class(tu, "memoized_property", "mako/util.py")
    cells.append(("util.memoized_property.__get__ obj.__dict__[name] (Template.cache, Template.reserved_names)",
                  stored_complete(find_func(mp.body, "__get__", "mako/util.py"), "__dict__", "memoized_property.__get__")))
    tc = parse(repo, "mako/cache.py")
    cc = find_class(tc, "Cache", "mako/cache.py")
    cells.append(("cache.Cache._get_cache_kw self._def_regions[defname]",
                  stored_complete(find_func(cc.body, "_get_cache_kw", "mako/cache.py"), "_def_regions",
                                  "Cache._get_cache_kw")))
    tl = parse(repo, "mako/lexer.py")
    lc = find_class(tl, "Lexer", "mako/lexer.py")
    cells.append(("lexer.Lexer.match _regexp_cache[(regexp, flags)]",
                  stored_complete(find_func(lc.body, "match", "mako/lexer.py"), "_regexp_cache", "Lexer.match")))
    tk = parse(repo, "mako/lookup.py")
    lk = find_class(tk, "TemplateLookup", "mako/lookup.py")
    cells.append(("lookup.TemplateLookup.adjust_uri self._uri_cache[key]",
                  stored_complete(find_func(lk.body, "adjust_uri", "mako/lookup.py"), "_uri_cache",
                                  "TemplateLookup.adjust_uri")))
    tt = parse(repo, "mako/template.py")
    mi = find_class(tt, "ModuleInfo", "mako/template.py")
    cells.append(("template.ModuleInfo.__init__ self._modules[...]",
                  stored_complete(find_func(mi.body, "__init__", "mako/template.py"), "_modules",
                                  "ModuleInfo.__init__")))
    lru = find_class(tu, "LRUCache", "mako/util.py")
    lru_cells = [("util.LRUCache.__setitem__ inserts only _Item(key, value) objects built from its own value argument",
                  lru_entry_published_with_value(lru, "mako/util.py"))]
    tr = parse(repo, "mako/runtime.py")
    mn = find_class(tr, "ModuleNamespace", "mako/runtime.py")
    import_cells = [("runtime.ModuleNamespace.__init__ self.module comes from __import__/import_module calls only, no sys.modules",
                     imports_through_lock(tr, find_func(mn.body, "__init__", "mako/runtime.py"),
                                          "ModuleNamespace.__init__"))]
    lines = [HEADER % "mako/util.py, mako/cache.py, mako/lexer.py, mako/lookup.py, mako/template.py, mako/runtime.py (shared memo cells)",
             "namespace MakoModel.Generated.Conc",
             "",
             "/-- the lazily initialised shared cells and, for each, whether the object is complete when the statement",
             "    that stores it into the shared container has run (no later statement of the function mutates it) -/",
             "def memoCells : List (String × Bool) :=",
             "  [ " + "\n  , ".join("(%s, %s)" % (lean_string(n), "true" if ok else "false") for n, ok in cells),
             "  ]",
             "",
             "/-- the entries of the bounded collection, which `get_template` reads without the mutex: whether",
             "    `LRUCache.__setitem__` inserts only `_Item(key, value)` objects built from its own `value` argument (the entry",
             "    carries its value when it becomes visible) -/",
             "def lruEntryCells : List (String × Bool) :=",
             "  [ " + "\n  , ".join("(%s, %s)" % (lean_string(n), "true" if ok else "false") for n, ok in lru_cells),
             "  ]",
             "",
             "/-- first-use cells whose object is made by the import machinery: whether the function obtains the module it",
             "    keeps only from `__import__` / `import_module` calls (per-module import lock) and never reads `sys.modules` -/",
             "def importCells : List (String × Bool) :=",
             "  [ " + "\n  , ".join("(%s, %s)" % (lean_string(n), "true" if ok else "false") for n, ok in import_cells),
             "  ]",
             "",
             "end MakoModel.Generated.Conc",
             ""]
    return "\n".join(lines)
