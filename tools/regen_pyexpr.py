"""Regen group "PyExpr": operator tables and visitor inventories  ->  lean/MakoModel/Generated/PyExpr.lean

From the source text of /repo/mako/_ast_util.py and /repo/mako/pyparser.py (Python `ast`, nothing imported
from mako):
  * `BOOLOP_SYMBOLS`, `BINOP_SYMBOLS`, `CMPOP_SYMBOLS`, `UNARYOP_SYMBOLS` (dict literals; keys are the names
    of `_ast` operator classes) as association lists  operator constructor name -> symbol, in source order,
    duplicate keys resolved as Python does (last wins);
  * the inventory of `visit_*` attributes of class `SourceGenerator` (methods, `visit_X = factory(...)`
    assignments, chained assignments; names removed by `del` are dropped) - the node-kind names;
  * the same inventory for `pyparser.FindIdentifiers`;
  * `pyparser.reserved` (set literal of names never reported as undeclared).
The model (PyExpr/Model.lean) consults these: an operator without an entry is the `KeyError` of the real
code (`none`), a node kind without a `visit_*` goes through `generic_visit` (children only).
"""
from __future__ import annotations

import ast

from regen import group, RegenError, parse, module_assign, find_class, const, lean_str, HEADER

REL_A = "mako/_ast_util.py"
REL_P = "mako/pyparser.py"


def _op_table(tree, name):
    node = module_assign(tree, name, REL_A)
    if not isinstance(node, ast.Dict):
        raise RegenError("%s: %s is not a dict literal" % (REL_A, name))
    out = {}
    for k, v in zip(node.keys, node.values):
        if isinstance(k, ast.Name):
            key = k.id
        elif isinstance(k, ast.Attribute):          # ast.Pow / _ast.Pow
            key = k.attr
        else:
            raise RegenError("%s: key of %s is not an operator class name: %s" % (REL_A, name, ast.dump(k)[:60] if k else k))
        out[key] = const(v, str, "%s[%s]" % (name, key))      # dict semantics: last wins, first position kept
    return list(out.items())


def _visitors(cls, rel):
    names = []

    def add(n):
        if n.startswith("visit_") and n not in names:
            names.append(n)

    for node in cls.body:
        if isinstance(node, (ast.FunctionDef, ast.AsyncFunctionDef)):
            add(node.name)
        elif isinstance(node, ast.Assign):
            for t in node.targets:
                if isinstance(t, ast.Name):
                    add(t.id)
                elif isinstance(t, ast.Tuple):
                    raise RegenError("%s: tuple assignment in class %s not understood" % (rel, cls.name))
        elif isinstance(node, ast.Delete):
            for t in node.targets:
                if isinstance(t, ast.Name) and t.id in names:
                    names.remove(t.id)
        elif isinstance(node, (ast.If, ast.For, ast.While, ast.Try, ast.With)):
            # conditional method definitions would make the inventory depend on the interpreter
            for sub in ast.walk(node):
                if isinstance(sub, (ast.FunctionDef, ast.Assign)) and any(
                        n.startswith("visit_") for n in ([sub.name] if isinstance(sub, ast.FunctionDef) else
                                                         [t.id for t in sub.targets if isinstance(t, ast.Name)])):
                    raise RegenError("%s: conditional visit_* definition in class %s" % (rel, cls.name))
    return [n[len("visit_"):] for n in names]


def _bases(cls):
    out = []
    for b in cls.bases:
        if isinstance(b, ast.Name):
            out.append(b.id)
        elif isinstance(b, ast.Attribute):
            out.append(b.attr)
        else:
            out.append("?")
    return out


def _lean_assoc(name, doc, items):
    body = ",\n".join("  (%s, %s)" % (lean_str(k), lean_str(v)) for k, v in items)
    return "/-- %s -/\ndef %s : List (List Char × List Char) := [\n%s\n]\n" % (doc, name, body)


def _lean_names(name, doc, items):
    body = ",\n".join("  %s" % lean_str(k) for k in items)
    return "/-- %s -/\ndef %s : List (List Char) := [\n%s\n]\n" % (doc, name, body)


@group("PyExpr")
def gen(repo) -> str:
    ta = parse(repo, REL_A)
    tp = parse(repo, REL_P)
    out = [HEADER % (REL_A + ", " + REL_P), "\nnamespace MakoModel.Generated.PyExpr\n"]
    for py, lean in (("BOOLOP_SYMBOLS", "boolopSymbols"), ("BINOP_SYMBOLS", "binopSymbols"),
                     ("CMPOP_SYMBOLS", "cmpopSymbols"), ("UNARYOP_SYMBOLS", "unaryopSymbols")):
        items = _op_table(ta, py)
        out.append(_lean_assoc(lean, "`%s` of _ast_util.py: %s" % (py, ", ".join("%s %s" % kv for kv in items)), items))
    sg = find_class(ta, "SourceGenerator", REL_A)
    if _bases(sg) != ["NodeVisitor"]:
        raise RegenError("%s: SourceGenerator no longer derives from NodeVisitor alone: %s" % (REL_A, _bases(sg)))
    nv = find_class(ta, "NodeVisitor", REL_A)
    if _visitors(nv, REL_A):
        raise RegenError("%s: NodeVisitor itself defines visit_* methods" % REL_A)
    vis = _visitors(sg, REL_A)
    out.append(_lean_names("sourceGenVisitors", "node kinds with a `visit_*` in `SourceGenerator`: " + " ".join(vis), vis))
    fi = find_class(tp, "FindIdentifiers", REL_P)
    if _bases(fi) != ["NodeVisitor"]:
        raise RegenError("%s: FindIdentifiers no longer derives from NodeVisitor alone: %s" % (REL_P, _bases(fi)))
    vis = _visitors(fi, REL_P)
    out.append(_lean_names("findIdentVisitors", "node kinds with a `visit_*` in `FindIdentifiers`: " + " ".join(vis), vis))
    rs = module_assign(tp, "reserved", REL_P)
    if not isinstance(rs, (ast.Set, ast.List, ast.Tuple)):
        raise RegenError("%s: reserved is not a set/list/tuple literal" % REL_P)
    names = sorted({const(e, str, "reserved element") for e in rs.elts})
    out.append(_lean_names("reserved", "`pyparser.reserved`: " + " ".join(names), names))
    out.append("end MakoModel.Generated.PyExpr\n")
    return "\n".join(out)
