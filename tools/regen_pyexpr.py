"""Regen group "PyExpr": operator tables and visitor inventories  ->  lean/MakoModel/Generated/PyExpr.lean

From the source text of /repo/mako/_ast_util.py and /repo/mako/pyparser.py (Python `ast`, nothing imported
from mako):
  * `BOOLOP_SYMBOLS`, `BINOP_SYMBOLS`, `CMPOP_SYMBOLS`, `UNARYOP_SYMBOLS` (dict literals; keys are the names
    of `_ast` operator classes) as association lists  operator constructor name -> symbol, in source order,
    duplicate keys resolved as Python does (last wins);
  * the inventory of `visit_*` attributes of class `SourceGenerator` (methods, `visit_X = factory(...)`
    assignments, chained assignments; names removed by `del` are dropped) - the node-kind names;
  * the same inventory for `pyparser.FindIdentifiers`;
  * `pyparser.reserved` (set literal of names never reported as undeclared);
  * from mako/parsetree.py, mako/ast.py, mako/pyparser.py: which field of `FunctionDecl` the `declared_identifiers()` of
    DefTag/BlockTag/PageTag return, which one `DefTag.undeclared_identifiers()` subtracts, what `allargnames` is made
    of and which `ast.arguments` fields `ParseFunc` puts into `argnames`/`kwargnames`.
The model (PyExpr/Model.lean) consults these: an operator without an entry is the `KeyError` of the real
code (`none`), a node kind without a `visit_*` goes through `generic_visit` (children only).
"""
from __future__ import annotations

import ast

from regen import group, RegenError, parse, module_assign, find_class, const, lean_str, HEADER

REL_A = "mako/_ast_util.py"
REL_P = "mako/pyparser.py"
REL_T = "mako/parsetree.py"
REL_S = "mako/ast.py"


def _op_table(tree, name):
    node = module_assign(tree, name, REL_A)
    if not isinstance(node, ast.Dict):
        raise RegenError("%s: %s is not a dict literal" % (REL_A, name))
    out = {}
    for k, v in zip(node.keys, node.values):
        if isinstance(k, ast.Name):
            key = k.id
        elif isinstance(k, ast.Attribute):          # ast.Pow / _ast.Pow
            key = k.attr
        else:
            raise RegenError("%s: key of %s is not an operator class name: %s" % (REL_A, name, ast.dump(k)[:60] if k else k))
        out[key] = const(v, str, "%s[%s]" % (name, key))      # dict semantics: last wins, first position kept
    return list(out.items())


def _visitors(cls, rel):
    names = []

    def add(n):
        if n.startswith("visit_") and n not in names:
            names.append(n)

    for node in cls.body:
        if isinstance(node, (ast.FunctionDef, ast.AsyncFunctionDef)):
            add(node.name)
        elif isinstance(node, ast.Assign):
            for t in node.targets:
                if isinstance(t, ast.Name):
                    add(t.id)
                elif isinstance(t, ast.Tuple):
                    raise RegenError("%s: tuple assignment in class %s not understood" % (rel, cls.name))
        elif isinstance(node, ast.Delete):
            for t in node.targets:
                if isinstance(t, ast.Name) and t.id in names:
                    names.remove(t.id)
        elif isinstance(node, (ast.If, ast.For, ast.While, ast.Try, ast.With)):
            # conditional method definitions would make the inventory depend on the interpreter
            for sub in ast.walk(node):
                if isinstance(sub, (ast.FunctionDef, ast.Assign)) and any(
                        n.startswith("visit_") for n in ([sub.name] if isinstance(sub, ast.FunctionDef) else
                                                         [t.id for t in sub.targets if isinstance(t, ast.Name)])):
                    raise RegenError("%s: conditional visit_* definition in class %s" % (rel, cls.name))
    return [n[len("visit_"):] for n in names]


def _bases(cls):
    out = []
    for b in cls.bases:
        if isinstance(b, ast.Name):
            out.append(b.id)
        elif isinstance(b, ast.Attribute):
            out.append(b.attr)
        else:
            out.append("?")
    return out


def _lean_assoc(name, doc, items):
    body = ",\n".join("  (%s, %s)" % (lean_str(k), lean_str(v)) for k, v in items)
    return "/-- %s -/\ndef %s : List (List Char × List Char) := [\n%s\n]\n" % (doc, name, body)


def _lean_names(name, doc, items):
    body = ",\n".join("  %s" % lean_str(k) for k in items)
    return "/-- %s -/\ndef %s : List (List Char) := [\n%s\n]\n" % (doc, name, body)


def _method(cls, name, rel):
    for node in cls.body:
        if isinstance(node, ast.FunctionDef) and node.name == name:
            return node
    raise RegenError("%s: class %s has no method %s" % (rel, cls.name, name))


def _self_attr_chain(node):
    """`self.a.b` -> ['a', 'b'] (None when the expression is something else)"""
    out = []
    while isinstance(node, ast.Attribute):
        out.append(node.attr)
        node = node.value
    if isinstance(node, ast.Name) and node.id == "self":
        return out[::-1]
    return None


def _returned(fn, rel, what):
    rets = [n for n in ast.walk(fn) if isinstance(n, ast.Return)]
    if len(rets) != 1 or rets[0].value is None:
        raise RegenError("%s: %s does not have exactly one return" % (rel, what))
    return rets[0].value


def _declared_field(cls, rel):
    """`declared_identifiers` returns `self.<decl>.<field>`: the field"""
    ch = _self_attr_chain(_returned(_method(cls, "declared_identifiers", rel), rel, cls.name + ".declared_identifiers"))
    if not ch or len(ch) != 2:
        raise RegenError("%s: %s.declared_identifiers does not return self.<decl>.<field>" % (rel, cls.name))
    return ch[1]


def _subtracted_field(cls, rel):
    """`undeclared_identifiers` returns `(…).difference(self.<decl>.<field>)` as its outermost operation: the field
    ('' when nothing of the kind is subtracted)"""
    v = _returned(_method(cls, "undeclared_identifiers", rel), rel, cls.name + ".undeclared_identifiers")
    if isinstance(v, ast.Call) and isinstance(v.func, ast.Attribute) and v.func.attr == "difference" and len(v.args) == 1:
        ch = _self_attr_chain(v.args[0])
        if ch and len(ch) == 2:
            return ch[1]
    return ""


def _parsefunc_sources(tp):
    """ParseFunc.visit_FunctionDef: which fields of `ast.arguments` feed `argnames` / `kwargnames`"""
    fn = _method(find_class(tp, "ParseFunc", REL_P), "visit_FunctionDef", REL_P)
    src = {"argnames": [], "kwargnames": []}
    for node in ast.walk(fn):
        if isinstance(node, ast.Assign) and len(node.targets) == 1 and isinstance(node.targets[0], ast.Name) \
                and node.targets[0].id in src:
            for sub in ast.walk(node.value):
                ch = None
                if isinstance(sub, ast.Attribute):
                    parts = []
                    x = sub
                    while isinstance(x, ast.Attribute):
                        parts.append(x.attr)
                        x = x.value
                    if isinstance(x, ast.Name) and x.id == "node" and parts[-1] == "args" and len(parts) == 2:
                        ch = parts[0]
                # getattr(node.args, "posonlyargs", [])
                if isinstance(sub, ast.Call) and isinstance(sub.func, ast.Name) and sub.func.id == "getattr" \
                        and len(sub.args) >= 2 and isinstance(sub.args[0], ast.Attribute) \
                        and isinstance(sub.args[0].value, ast.Name) and sub.args[0].value.id == "node" \
                        and sub.args[0].attr == "args" and isinstance(sub.args[1], ast.Constant) \
                        and isinstance(sub.args[1].value, str):
                    ch = sub.args[1].value
                if ch and ch not in src[node.targets[0].id]:
                    src[node.targets[0].id].append(ch)
        if isinstance(node, ast.Call) and isinstance(node.func, ast.Attribute) and node.func.attr == "append" \
                and isinstance(node.func.value, ast.Name) and node.func.value.id in src:
            for sub in ast.walk(node.args[0]):
                if isinstance(sub, ast.Attribute) and isinstance(sub.value, ast.Attribute) \
                        and isinstance(sub.value.value, ast.Name) and sub.value.value.id == "node" \
                        and sub.value.attr == "args" and sub.attr not in src[node.func.value.id]:
                    src[node.func.value.id].append(sub.attr)
    if not src["argnames"] or not src["kwargnames"]:
        raise RegenError("%s: ParseFunc.visit_FunctionDef: argnames/kwargnames not understood" % REL_P)
    return src


def _allargnames_parts(ts):
    fd = find_class(ts, "FunctionDecl", REL_S)
    v = _returned(_method(fd, "allargnames", REL_S), REL_S, "FunctionDecl.allargnames")
    parts = []
    for sub in ast.walk(v):
        ch = _self_attr_chain(sub) if isinstance(sub, ast.Attribute) else None
        if ch and len(ch) == 1 and ch[0] not in parts:
            parts.append(ch[0])
    if not parts:
        raise RegenError("%s: FunctionDecl.allargnames not understood" % REL_S)
    return parts


@group("PyExpr")
def gen(repo) -> str:
    ta = parse(repo, REL_A)
    tp = parse(repo, REL_P)
    out = [HEADER % (REL_A + ", " + REL_P), "\nnamespace MakoModel.Generated.PyExpr\n"]
    for py, lean in (("BOOLOP_SYMBOLS", "boolopSymbols"), ("BINOP_SYMBOLS", "binopSymbols"),
                     ("CMPOP_SYMBOLS", "cmpopSymbols"), ("UNARYOP_SYMBOLS", "unaryopSymbols")):
        items = _op_table(ta, py)
        out.append(_lean_assoc(lean, "`%s` of _ast_util.py: %s" % (py, ", ".join("%s %s" % kv for kv in items)), items))
    sg = find_class(ta, "SourceGenerator", REL_A)
    if _bases(sg) != ["NodeVisitor"]:
        raise RegenError("%s: SourceGenerator no longer derives from NodeVisitor alone: %s" % (REL_A, _bases(sg)))
    nv = find_class(ta, "NodeVisitor", REL_A)
    if _visitors(nv, REL_A):
        raise RegenError("%s: NodeVisitor itself defines visit_* methods" % REL_A)
    vis = _visitors(sg, REL_A)
    out.append(_lean_names("sourceGenVisitors", "node kinds with a `visit_*` in `SourceGenerator`: " + " ".join(vis), vis))
    fi = find_class(tp, "FindIdentifiers", REL_P)
    if _bases(fi) != ["NodeVisitor"]:
        raise RegenError("%s: FindIdentifiers no longer derives from NodeVisitor alone: %s" % (REL_P, _bases(fi)))
    vis = _visitors(fi, REL_P)
    out.append(_lean_names("findIdentVisitors", "node kinds with a `visit_*` in `FindIdentifiers`: " + " ".join(vis), vis))
    rs = module_assign(tp, "reserved", REL_P)
    if not isinstance(rs, (ast.Set, ast.List, ast.Tuple)):
        raise RegenError("%s: reserved is not a set/list/tuple literal" % REL_P)
    names = sorted({const(e, str, "reserved element") for e in rs.elts})
    out.append(_lean_names("reserved", "`pyparser.reserved`: " + " ".join(names), names))
    # which parameters of its own signature a <%def>/<%block>/<%page> knows when its attribute expressions
    # (filter=, cache_key, …) are analysed
    tt = parse(repo, REL_T)
    ts = parse(repo, REL_S)
    for cls, lean in (("DefTag", "defTag"), ("BlockTag", "blockTag"), ("PageTag", "pageTag")):
        c = find_class(tt, cls, REL_T)
        d = _declared_field(c, REL_T)
        out.append("/-- `%s.declared_identifiers()` returns this field of its `FunctionDecl` -/\ndef %sDeclared : List Char := %s\n"
                   % (cls, lean, lean_str(d)))
    sub = _subtracted_field(find_class(tt, "DefTag", REL_T), REL_T)
    out.append("/-- `DefTag.undeclared_identifiers()` ends in `.difference(self.function_decl.<this field>)` -/\n"
               "def defTagSubtracted : List Char := %s\n" % lean_str(sub))
    out.append(_lean_names("allargnamesParts", "`FunctionDecl.allargnames` concatenates these fields: "
                           + " ".join(_allargnames_parts(ts)), _allargnames_parts(ts)))
    pf = _parsefunc_sources(tp)
    out.append(_lean_names("argnamesSources", "`ParseFunc`: `argnames` is built from these fields of `ast.arguments`: "
                           + " ".join(pf["argnames"]), pf["argnames"]))
    out.append(_lean_names("kwargnamesSources", "`ParseFunc`: `kwargnames` is built from these fields of `ast.arguments`: "
                           + " ".join(pf["kwargnames"]), pf["kwargnames"]))
    out.append("end MakoModel.Generated.PyExpr\n")
    return "\n".join(out)
