"""Regen group "Paths8" (C08): what mako/template.py and mako/codegen.py say *now* about the things the
compilation-path model (lean/MakoModel/Paths8/Model.lean) is parameterised by:

* `moduleIdPattern`, `moduleIdRepl` - the arguments of `re.sub(<pattern>, <repl>, uri|filename|module._template_uri)`
                                      that compute `module_id` in Template.__init__ (both branches) and
                                      ModuleTemplate.__init__ (all three must be the same call shape);
* `memoryPrefix`                    - the literal prefix of the module id of a template without uri and filename;
* `magicCommentTextPath`, `magicCommentModulePath`
                                    - the `generate_magic_comment=` keyword passed to `_compile` by `_compile_text` and
                                      by `_compile_module_file`;
* `magicNumber`                     - codegen.MAGIC_NUMBER;
* `declsSorted`, `localsSnapshotSorted`, `codeBlockNamesSorted`, `conflictMessagesSorted`
                                    - whether the three sets codegen prints (to_write, argument_declared, the declared
                                      identifiers of a <% %> block) and the names of the NameConflictError messages are
                                      walked through sorted() (then the generated module does not depend on PYTHONHASHSEED);
* `sourceStripsOneBom`              - ModuleInfo.source removes a utf-8 byte order mark with startswith + slice
                                      (exactly one, only as a prefix) before decoding;
* `directoriesKeepOrder`            - TemplateLookup.__init__ builds self.directories as a list comprehension over
                                      util.to_list(directories) (search order = configuration order);
* `headerFormats`                   - the format strings of the `self.printer.writeline(...)` calls of
                                      `_GenerateRenderMethod.write_toplevel`, in source order, up to and including the
                                      `_exports` line (a bare name argument, as in `writeline(imp)`, is recorded as
                                      `<name>`): the module preamble of every generated module.

A statement shape that is not understood raises RegenError (broken tie).
"""
from __future__ import annotations

import ast

from regen import group, RegenError, parse, module_assign, find_class, find_func, const, lean_string, HEADER

TEMPLATE = "mako/template.py"
CODEGEN = "mako/codegen.py"


def _dotted(node):
    parts = []
    while isinstance(node, ast.Attribute):
        parts.append(node.attr)
        node = node.value
    if isinstance(node, ast.Name):
        parts.append(node.id)
        return ".".join(reversed(parts))
    return None


def _module_id_assigns(fn, what):
    """all `self.module_id = <value>` assignments of a function, in source order"""
    res = []
    for n in ast.walk(fn):
        if isinstance(n, ast.Assign) and len(n.targets) == 1 and _dotted(n.targets[0]) == "self.module_id":
            res.append(n)
    res.sort(key=lambda n: (n.lineno, n.col_offset))
    if not res:
        raise RegenError("%s: no assignment to self.module_id" % what)
    return [n.value for n in res]


def _re_sub(node, what):
    """(pattern, repl, dotted-name of the subject) of a `re.sub("..", "..", subject)` call"""
    if not (isinstance(node, ast.Call) and _dotted(node.func) == "re.sub" and len(node.args) == 3 and not node.keywords):
        raise RegenError("%s: module_id is not computed by re.sub(pattern, repl, subject): %s" % (what, ast.dump(node)[:120]))
    pat = const(node.args[0], str, what + " pattern")
    rep = const(node.args[1], str, what + " replacement")
    subj = _dotted(node.args[2])
    if subj is None:
        raise RegenError("%s: subject of re.sub is not a plain name" % what)
    return pat, rep, subj


def _magic_kw(fn, what):
    calls = [n for n in ast.walk(fn) if isinstance(n, ast.Call) and _dotted(n.func) == "_compile"]
    if len(calls) != 1:
        raise RegenError("%s: expected exactly one call of _compile" % what)
    for kw in calls[0].keywords:
        if kw.arg == "generate_magic_comment":
            return const(kw.value, bool, what + " generate_magic_comment")
    raise RegenError("%s: _compile is not called with generate_magic_comment=<literal>" % what)


def _writeline_formats(fn):
    """format strings of `self.printer.writeline(X)` statements in source order (descending into if/for bodies)"""
    out = []

    def fmt(arg):
        if isinstance(arg, ast.Constant) and isinstance(arg.value, str):
            return arg.value
        if isinstance(arg, ast.BinOp) and isinstance(arg.op, ast.Mod) and isinstance(arg.left, ast.Constant) \
                and isinstance(arg.left.value, str):
            return arg.left.value
        if isinstance(arg, ast.Name):
            return "<%s>" % arg.id
        raise RegenError("write_toplevel: writeline argument not understood: %s" % ast.dump(arg)[:100])

    def walk(stmts):
        for s in stmts:
            if isinstance(s, ast.Expr) and isinstance(s.value, ast.Call) and _dotted(s.value.func) == "self.printer.writeline":
                if len(s.value.args) != 1:
                    raise RegenError("write_toplevel: writeline with %d arguments" % len(s.value.args))
                out.append(fmt(s.value.args[0]))
            elif isinstance(s, ast.If):
                walk(s.body)
                walk(s.orelse)
            elif isinstance(s, (ast.For, ast.While, ast.With)):
                walk(s.body)
            elif isinstance(s, ast.Try):
                walk(s.body)
    walk(fn.body)
    return out


def _is_sorted_call(node):
    return isinstance(node, ast.Call) and isinstance(node.func, ast.Name) and node.func.id == "sorted" and len(node.args) == 1


def _iter_of(fn, what, pred):
    """the iterable expression of the unique for-loop / comprehension of `fn` whose iterable (possibly wrapped in
    sorted()) satisfies `pred`"""
    hits = []
    for n in ast.walk(fn):
        its = []
        if isinstance(n, ast.For):
            its = [n.iter]
        elif isinstance(n, (ast.ListComp, ast.GeneratorExp, ast.SetComp)):
            its = [g.iter for g in n.generators]
        for it in its:
            inner = it.args[0] if _is_sorted_call(it) else it
            if pred(inner):
                hits.append(it)
    if len(hits) != 1:
        raise RegenError("%s: expected exactly one iteration, found %d" % (what, len(hits)))
    return hits[0]


def _set_orders(tc):
    """is each of the three printed sets walked through sorted()?"""
    gcls = find_class(tc, "_GenerateRenderMethod", CODEGEN)
    wvd = find_func(gcls.body, "write_variable_declares", CODEGEN)
    wrc = find_func(gcls.body, "write_render_callable", CODEGEN)
    vc = find_func(gcls.body, "visitCode", CODEGEN)
    a = _iter_of(wvd, "write_variable_declares: loop over to_write", lambda e: isinstance(e, ast.Name) and e.id == "to_write")
    b = _iter_of(wrc, "write_render_callable: __M_locals keyword list", lambda e: _dotted(e) == "self.identifiers.argument_declared")
    c = _iter_of(vc, "visitCode: __M_locals.update name list",
                 lambda e: isinstance(e, ast.Call) and _dotted(e.func) == "node.declared_identifiers")
    return _is_sorted_call(a), _is_sorted_call(b), _is_sorted_call(c)


def _conflict_sorted(tree, rel):
    """every NameConflictError message that joins `illegal_names` joins sorted(illegal_names)?"""
    res = []
    for n in ast.walk(tree):
        if isinstance(n, ast.Call) and isinstance(n.func, ast.Attribute) and n.func.attr == "join" and len(n.args) == 1:
            a = n.args[0]
            inner = a.args[0] if _is_sorted_call(a) else a
            if isinstance(inner, ast.Name) and inner.id == "illegal_names":
                res.append(_is_sorted_call(a))
    if not res:
        raise RegenError("%s: no ', '.join(illegal_names) found" % rel)
    return all(res)


def _directories_keep_order(repo):
    """TemplateLookup.__init__: `self.directories = [f(d) for d in util.to_list(directories, ...)]` (a list built in
    the order of the configured list) -> True; a set / set comprehension anywhere in the expression -> False"""
    rel = "mako/lookup.py"
    tl = parse(repo, rel)
    init = find_func(find_class(tl, "TemplateLookup", rel).body, "__init__", rel)
    vals = [n.value for n in ast.walk(init) if isinstance(n, ast.Assign) and len(n.targets) == 1
            and _dotted(n.targets[0]) == "self.directories"]
    if len(vals) != 1:
        raise RegenError("%s: expected exactly one assignment to self.directories, found %d" % (rel, len(vals)))
    v = vals[0]
    for n in ast.walk(v):
        if isinstance(n, (ast.Set, ast.SetComp)) or (isinstance(n, ast.Call) and _dotted(n.func) in ("set", "frozenset", "sorted")):
            return False
    if isinstance(v, ast.ListComp) and len(v.generators) == 1 and not v.generators[0].ifs \
            and isinstance(v.generators[0].iter, ast.Call) and _dotted(v.generators[0].iter.func) == "util.to_list" \
            and v.generators[0].iter.args and isinstance(v.generators[0].iter.args[0], ast.Name) \
            and v.generators[0].iter.args[0].id == "directories":
        return True
    raise RegenError("%s: shape of `self.directories = ...` not understood: %s" % (rel, ast.dump(v)[:160]))


def _source_strips_one_bom(tt):
    """ModuleInfo.source: the bytes are relieved of a utf-8 byte order mark by
         if data.startswith(codecs.BOM_UTF8): data = data[len(codecs.BOM_UTF8):]
    (exactly one BOM, only as a prefix) -> True; any other treatment of the BOM (strip/lstrip/replace, a loop) -> False;
    no mention of the BOM at all -> RegenError"""
    cls = find_class(tt, "ModuleInfo", TEMPLATE)
    fn = find_func(cls.body, "source", TEMPLATE)
    mentions = [n for n in ast.walk(fn) if _dotted(n) == "codecs.BOM_UTF8"]
    if not mentions:
        raise RegenError("ModuleInfo.source: no treatment of codecs.BOM_UTF8 found")
    exact = 0
    for n in ast.walk(fn):
        if isinstance(n, ast.If) and isinstance(n.test, ast.Call) and _dotted(n.test.func) == "data.startswith" \
                and len(n.test.args) == 1 and _dotted(n.test.args[0]) == "codecs.BOM_UTF8" and not n.orelse \
                and len(n.body) == 1 and isinstance(n.body[0], ast.Assign) and _dotted(n.body[0].targets[0]) == "data":
            v = n.body[0].value
            if isinstance(v, ast.Subscript) and _dotted(v.value) == "data" and isinstance(v.slice, ast.Slice) \
                    and v.slice.upper is None and v.slice.step is None and isinstance(v.slice.lower, ast.Call) \
                    and _dotted(v.slice.lower.func) == "len" and _dotted(v.slice.lower.args[0]) == "codecs.BOM_UTF8":
                exact += 1
    # every mention of the BOM must belong to that one statement (test + slice = 2 mentions)
    return exact == 1 and len(mentions) == 2


@group("Paths8")
def gen(repo) -> str:
    tt = parse(repo, TEMPLATE)
    tc = parse(repo, CODEGEN)
    tcls = find_class(tt, "Template", TEMPLATE)
    init = find_func(tcls.body, "__init__", TEMPLATE)
    vals = _module_id_assigns(init, "Template.__init__")
    if len(vals) != 3:
        raise RegenError("Template.__init__: expected three assignments to self.module_id (uri / filename / memory), found %d" % len(vals))
    p1, r1, s1 = _re_sub(vals[0], "Template.__init__ (uri branch)")
    p2, r2, s2 = _re_sub(vals[1], "Template.__init__ (filename branch)")
    if (s1, s2) != ("uri", "filename"):
        raise RegenError("Template.__init__: module_id branches are over (%s, %s), expected (uri, filename)" % (s1, s2))
    mem = vals[2]
    if not (isinstance(mem, ast.BinOp) and isinstance(mem.op, ast.Add) and isinstance(mem.left, ast.Constant)
            and isinstance(mem.left.value, str) and isinstance(mem.right, ast.Call) and _dotted(mem.right.func) == "hex"):
        raise RegenError("Template.__init__: memory module_id is not `<literal> + hex(id(self))`")
    mcls = find_class(tt, "ModuleTemplate", TEMPLATE)
    minit = find_func(mcls.body, "__init__", TEMPLATE)
    mvals = _module_id_assigns(minit, "ModuleTemplate.__init__")
    p3, r3, s3 = _re_sub(mvals[0], "ModuleTemplate.__init__")
    if s3 != "module._template_uri" or len(mvals) != 1:
        raise RegenError("ModuleTemplate.__init__: module_id is not re.sub(.., .., module._template_uri)")
    if not (p1 == p2 == p3 and r1 == r2 == r3):
        raise RegenError("module_id is computed with different patterns/replacements: %r" % ([(p1, r1), (p2, r2), (p3, r3)],))
    if len(r1) != 1:
        raise RegenError("module_id replacement is not a single character: %r" % r1)
    magic_text = _magic_kw(find_func(tt.body, "_compile_text", TEMPLATE), "_compile_text")
    magic_mod = _magic_kw(find_func(tt.body, "_compile_module_file", TEMPLATE), "_compile_module_file")
    magic = const(module_assign(tc, "MAGIC_NUMBER", CODEGEN), int, "MAGIC_NUMBER")
    gcls = find_class(tc, "_GenerateRenderMethod", CODEGEN)
    fmts = _writeline_formats(find_func(gcls.body, "write_toplevel", CODEGEN))
    if not any(f.startswith("_exports") for f in fmts):
        raise RegenError("write_toplevel: no `_exports` line")
    last = max(i for i, f in enumerate(fmts) if f.startswith("_exports"))
    fmts = fmts[: last + 1]
    d_sorted, l_sorted, c_sorted = _set_orders(tc)
    m_sorted = _conflict_sorted(tc, CODEGEN) and _conflict_sorted(parse(repo, "mako/runtime.py"), "mako/runtime.py")
    b = lambda x: "true" if x else "false"      # noqa: E731
    out = [HEADER % ("mako/template.py, mako/codegen.py, mako/runtime.py (tools/regen_paths8.py)"),
           "namespace MakoModel.Generated.Paths8", "",
           "/-- `re.sub(<pattern>, <repl>, …)` computing `module_id` in `Template.__init__` (uri and filename branch) and in",
           "    `ModuleTemplate.__init__` -/",
           "def moduleIdPattern : String := %s" % lean_string(p1),
           "def moduleIdRepl : Char := Char.ofNat %d" % ord(r1), "",
           "/-- prefix of the module id of a template that has neither uri nor filename -/",
           "def memoryPrefix : String := %s" % lean_string(mem.left.value), "",
           "/-- `generate_magic_comment=` passed by `_compile_text` / by `_compile_module_file` -/",
           "def magicCommentTextPath : Bool := %s" % ("true" if magic_text else "false"),
           "def magicCommentModulePath : Bool := %s" % ("true" if magic_mod else "false"), "",
           "/-- `codegen.MAGIC_NUMBER` -/",
           "def magicNumber : Nat := %d" % magic, "",
           "/-- `write_variable_declares`: `for ident in sorted(to_write)` (false: the set is walked in iteration order) -/",
           "def declsSorted : Bool := %s" % b(d_sorted),
           "/-- `write_render_callable`: `__M_locals = __M_dict_builtin(...)` over `sorted(argument_declared)` -/",
           "def localsSnapshotSorted : Bool := %s" % b(l_sorted),
           "/-- `visitCode`: `for __M_key in [...]` over `sorted(node.declared_identifiers())` -/",
           "def codeBlockNamesSorted : Bool := %s" % b(c_sorted),
           "/-- both `NameConflictError` messages join `sorted(illegal_names)` -/",
           "def conflictMessagesSorted : Bool := %s" % b(m_sorted), "",
           "/-- `ModuleInfo.source`: `if data.startswith(codecs.BOM_UTF8): data = data[len(codecs.BOM_UTF8):]` - exactly one",
           "    byte order mark is removed, and only as a prefix (false: the BOM is treated in some other way) -/",
           "def sourceStripsOneBom : Bool := %s" % b(_source_strips_one_bom(tt)), "",
           "/-- `TemplateLookup.__init__`: `self.directories` is a list built in the order of the configured directories",
           "    (false: it goes through a set, so the search order is the set's iteration order) -/",
           "def directoriesKeepOrder : Bool := %s" % b(_directories_keep_order(repo)), "",
           "/-- format strings of the `printer.writeline` calls of `write_toplevel`, in source order, up to `_exports` -/",
           "def headerFormats : List String := [",
           ",\n".join("  " + lean_string(f) for f in fmts),
           "]", "",
           "end MakoModel.Generated.Paths8", ""]
    return "\n".join(out)
