"""Regen group "Lookup": constants of mako/util.py (LRUCache) and mako/lookup.py (TemplateLookup) that
the lookup model (lean/MakoModel/Lookup/Model.lean) is parameterised by.

* LRUCache.__init__'s `threshold` default (a float; written as the exact fraction num/den),
* the shape of `_manage_size`'s loop condition  `len(self) > self.capacity + self.capacity * self.threshold`
  and of the slice `bytime[self.capacity:]`, `reverse=True` on the sort by `timestamp`,
* TemplateLookup.__init__'s defaults `filesystem_checks`, `collection_size`, the sentinel compared with
  `collection_size` that selects the plain dict, and that `util.LRUCache(collection_size)` is called with the
  capacity only (so the default threshold is the one in force),
* the comparison operator of `_check` (`module._modified_time >= mtime`), as an enum,
* whether `_load` hands a second-chance hit to `_check` (`secondChanceChecked`; read by the model of C14 and by
  the concurrent model of C16, which lists this group in its REGEN too), whether `_compile_from_file` compares the module's
  `_template_filename` with the source file name (and that its staleness test is still exists/mtime), and whether
  that staleness test precedes the first `load_module` (`staleDecidedBeforeImport`; consumed by C14 only).

Every constant has an obligation in lean/MakoModel/Lookup/LemmasColl.lean (`keepCached_eq`, `threshold_den_pos`,
`sort_is_descending`, `slice_is_from_capacity`, `module_checks_source_name`, `stale_decided_before_import`,
`second_chance_checked`, `default_filesystem_checks`, `default_collection_unbounded`) or is used by a property
theorem directly (`thresholdNum/Den` in `lru_bound`).
"""
from __future__ import annotations

import ast
from fractions import Fraction

from regen import group, RegenError, parse, find_class, find_func, HEADER


def _default_of(fn, name, rel):
    args = fn.args.args
    defaults = fn.args.defaults
    off = len(args) - len(defaults)
    for i, a in enumerate(args):
        if a.arg == name:
            if i < off:
                raise RegenError("%s: parameter %s of %s has no default" % (rel, name, fn.name))
            return defaults[i - off]
    raise RegenError("%s: %s has no parameter %s" % (rel, fn.name, name))


def _num(node, what):
    if isinstance(node, ast.UnaryOp) and isinstance(node.op, ast.USub):
        return -_num(node.operand, what)
    if isinstance(node, ast.Constant) and isinstance(node.value, (int, float)) and not isinstance(node.value, bool):
        return node.value
    raise RegenError("%s: expected a numeric literal, found %s" % (what, ast.dump(node)[:80]))


def _is_self_attr(node, attr):
    return isinstance(node, ast.Attribute) and node.attr == attr and isinstance(node.value, ast.Name) \
        and node.value.id == "self"


@group("Lookup")
def gen(repo) -> str:
    rel_u, rel_l = "mako/util.py", "mako/lookup.py"
    tu, tl = parse(repo, rel_u), parse(repo, rel_l)
    lru = find_class(tu, "LRUCache", rel_u)
    init = find_func(lru.body, "__init__", rel_u)
    thr = _num(_default_of(init, "threshold", rel_u), "LRUCache.threshold default")
    fr = Fraction(thr)            # exact value of the float
    if fr < 0:
        raise RegenError("LRUCache.threshold default is negative: %r" % thr)
    # _manage_size:  while len(self) > self.capacity + self.capacity * self.threshold:
    ms = find_func(lru.body, "_manage_size", rel_u)
    loops = [n for n in ms.body if isinstance(n, ast.While)]
    if len(loops) != 1:
        raise RegenError("%s: _manage_size is not a single while loop" % rel_u)
    t = loops[0].test
    ok = (isinstance(t, ast.Compare) and len(t.ops) == 1 and isinstance(t.ops[0], ast.Gt)
          and isinstance(t.left, ast.Call) and getattr(t.left.func, "id", None) == "len"
          and isinstance(t.comparators[0], ast.BinOp) and isinstance(t.comparators[0].op, ast.Add)
          and _is_self_attr(t.comparators[0].left, "capacity")
          and isinstance(t.comparators[0].right, ast.BinOp) and isinstance(t.comparators[0].right.op, ast.Mult)
          and _is_self_attr(t.comparators[0].right.left, "capacity")
          and _is_self_attr(t.comparators[0].right.right, "threshold"))
    if not ok:
        raise RegenError("%s: _manage_size loop condition is not `len(self) > capacity + capacity*threshold`: %s"
                         % (rel_u, ast.unparse(t)))
    src_ms = ast.unparse(ms)
    sort_desc = False
    slice_from_capacity = False
    for n in ast.walk(ms):
        if isinstance(n, ast.Call) and getattr(n.func, "id", None) == "sorted":
            for kw in n.keywords:
                if kw.arg == "reverse" and isinstance(kw.value, ast.Constant) and kw.value.value is True:
                    sort_desc = True
        if isinstance(n, ast.Subscript) and isinstance(n.slice, ast.Slice) and n.slice.upper is None \
                and n.slice.lower is not None and _is_self_attr(n.slice.lower, "capacity"):
            slice_from_capacity = True
    if "timestamp" not in src_ms:
        raise RegenError("%s: _manage_size does not sort by timestamp" % rel_u)
    # TemplateLookup.__init__
    tlk = find_class(tl, "TemplateLookup", rel_l)
    linit = find_func(tlk.body, "__init__", rel_l)
    checks_default = _default_of(linit, "filesystem_checks", rel_l)
    if not (isinstance(checks_default, ast.Constant) and isinstance(checks_default.value, bool)):
        raise RegenError("%s: filesystem_checks default is not a bool literal" % rel_l)
    size_default = _num(_default_of(linit, "collection_size", rel_l), "collection_size default")
    sentinel = None
    lru_args = None
    for n in ast.walk(linit):
        if isinstance(n, ast.If) and isinstance(n.test, ast.Compare) and isinstance(n.test.left, ast.Name) \
                and n.test.left.id == "collection_size" and len(n.test.ops) == 1 and isinstance(n.test.ops[0], ast.Eq):
            sentinel = _num(n.test.comparators[0], "collection_size sentinel")
            for m in ast.walk(n):
                if isinstance(m, ast.Assign) and any(_is_self_attr(tg, "_collection") for tg in m.targets) \
                        and isinstance(m.value, ast.Call) and isinstance(m.value.func, ast.Attribute) \
                        and m.value.func.attr == "LRUCache":
                    lru_args = (len(m.value.args), len(m.value.keywords),
                                [getattr(a, "id", None) for a in m.value.args])
    if sentinel is None:
        raise RegenError("%s: no `if collection_size == <sentinel>` in TemplateLookup.__init__" % rel_l)
    if lru_args != (1, 0, ["collection_size"]):
        raise RegenError("%s: self._collection is not util.LRUCache(collection_size): %r" % (rel_l, lru_args))
    # _check comparison
    chk = find_func(tlk.body, "_check", rel_l)
    cmpop = None
    for n in ast.walk(chk):
        if isinstance(n, ast.Compare) and len(n.ops) == 1 and "_modified_time" in ast.unparse(n.left) \
                and "ST_MTIME" in ast.unparse(n.comparators[0]):
            cmpop = type(n.ops[0]).__name__
    if cmpop is None:
        raise RegenError("%s: _check has no `module._modified_time <op> stat[ST_MTIME]` comparison" % rel_l)
    # _load: is the second-chance hit returned through self._check(uri, template)?
    ld = find_func(tlk.body, "_load", rel_l)
    second_chance_checked = any(
        isinstance(n, ast.Call) and isinstance(n.func, ast.Attribute) and n.func.attr == "_check"
        and isinstance(n.func.value, ast.Name) and n.func.value.id == "self" for n in ast.walk(ld))
    if not any(isinstance(n, ast.Subscript) and _is_self_attr(n.value, "_collection") and isinstance(n.ctx, ast.Load)
               for n in ast.walk(ld)):
        raise RegenError("%s: _load has no second-chance read of self._collection[uri]" % rel_l)
    if not any(isinstance(n, ast.Call) and isinstance(n.func, ast.Attribute) and n.func.attr == "pop"
               and _is_self_attr(n.func.value, "_collection") for n in ast.walk(ld)):
        raise RegenError("%s: _load does not pop the uri on failure" % rel_l)
    # Template._compile_from_file: is a module generated from another file name regenerated?
    rel_t = "mako/template.py"
    tt = parse(repo, rel_t)
    cff = find_func(find_class(tt, "Template", rel_t).body, "_compile_from_file", rel_t)
    src_cff = ast.unparse(cff)
    if "ST_MTIME] < filemtime" not in src_cff or "os.path.exists(path)" not in src_cff:
        raise RegenError("%s: _compile_from_file no longer decides by `not exists(path) or mtime(path) < filemtime`" % rel_t)
    def _same_wrapper(a, b):
        """(inner a, inner b) when both sides are bare, or both are the same one-argument call f(...) - e.g.
        os.path.normpath on both names; None otherwise"""
        if isinstance(a, ast.Call) and isinstance(b, ast.Call):
            if ast.unparse(a.func) == ast.unparse(b.func) and len(a.args) == 1 == len(b.args) \
                    and not a.keywords and not b.keywords:
                return a.args[0], b.args[0]
            return None
        if isinstance(a, ast.Call) or isinstance(b, ast.Call):
            return None
        return a, b

    # `module._template_filename != filename`, possibly with the same normalisation applied to both names
    # (the lookup hands Template a posixpath.normpath'ed file name, the model's file names are (directory, uri)
    # pairs: equality up to normpath is equality there)
    checks_source_name = False
    for n in ast.walk(cff):
        if isinstance(n, ast.Compare) and len(n.ops) == 1 and isinstance(n.ops[0], ast.NotEq):
            inner = _same_wrapper(n.left, n.comparators[0])
            if inner and isinstance(inner[0], ast.Attribute) and inner[0].attr == "_template_filename" \
                    and isinstance(inner[1], ast.Name) and inner[1].id == "filename":
                checks_source_name = True
    # is the staleness of an existing module file decided before the module file is imported?
    cmp_lines = [n.lineno for n in ast.walk(cff) if isinstance(n, ast.Compare) and len(n.ops) == 1
                 and isinstance(n.ops[0], ast.Lt) and ast.unparse(n.comparators[0]) == "filemtime"]
    load_lines = [n.lineno for n in ast.walk(cff) if isinstance(n, ast.Call) and isinstance(n.func, ast.Attribute)
                  and n.func.attr == "load_module"]
    if not cmp_lines or not load_lines:
        raise RegenError("%s: _compile_from_file has no `mtime < filemtime` test or no load_module call" % rel_t)
    stale_before_import = min(cmp_lines) < min(load_lines)
    lines = [HEADER % "mako/util.py (LRUCache), mako/lookup.py (TemplateLookup), mako/template.py (_compile_from_file)",
             "namespace MakoModel.Generated.Lookup",
             "",
             "/-- `LRUCache.__init__(capacity, threshold=%r)`: the default threshold as the exact fraction -/" % thr,
             "def thresholdNum : Nat := %d" % fr.numerator,
             "def thresholdDen : Nat := %d" % fr.denominator,
             "/-- `_manage_size` sorts by timestamp with `reverse=True` -/",
             "def sortDescending : Bool := %s" % ("true" if sort_desc else "false"),
             "/-- `_manage_size` deletes `bytime[self.capacity:]` -/",
             "def sliceFromCapacity : Bool := %s" % ("true" if slice_from_capacity else "false"),
             "/-- `TemplateLookup.__init__(filesystem_checks=…)` -/",
             "def defaultFilesystemChecks : Bool := %s" % ("true" if checks_default.value else "false"),
             "/-- `TemplateLookup.__init__(collection_size=…)` and the value that selects the plain dict -/",
             "def defaultCollectionSize : Int := %d" % size_default,
             "def unboundedSentinel : Int := %d" % sentinel,
             "/-- comparison of `_check`: `module._modified_time <op> mtime` keeps the cached template -/",
             "def checkCompare : String := \"%s\"" % cmpop,
             "/-- `_load` returns a second-chance hit through `self._check(uri, template)` -/",
             "def secondChanceChecked : Bool := %s" % ("true" if second_chance_checked else "false"),
             "/-- `_compile_from_file` regenerates a module file whose `_template_filename` differs from the source -/",
             "def moduleChecksSourceName : Bool := %s" % ("true" if checks_source_name else "false"),
             "/-- in `_compile_from_file` the `mtime(module) < mtime(source)` test precedes the first `load_module` -/",
             "def staleDecidedBeforeImport : Bool := %s" % ("true" if stale_before_import else "false"),
             "",
             "end MakoModel.Generated.Lookup",
             ""]
    return "\n".join(lines)
