#!/usr/bin/env python3
"""tools/seeded_table.py <log>… > seeded_results.md – turn the output of tools/seedrun.py into the table of DESIGN.md
section 10.23: per seeded change the property, what it needs to manifest, and what the check said."""
import hashlib
import json
import os
import re
import sys

VERIF = os.path.dirname(os.path.dirname(os.path.abspath(__file__)))
LINE = re.compile(r"^(\w+) -> check (\w+) rc=(\d+) (\d+)s \[(.*)\]\s*$")


def main():
    res = {}
    for path in sys.argv[1:]:
        for line in open(path, errors="replace"):
            m = LINE.match(line)
            if not m:
                continue
            sid, prop, rc, secs, viol = m.group(1), m.group(2), int(m.group(3)), int(m.group(4)), m.group(5)
            if rc == 1 and "no-failing-input-found" in viol:
                verdict = "tie broken, no failing input found"
            elif rc == 1:
                verdict = "caught, failing input replayed"
            elif rc == 0:
                verdict = "MISSED"
            else:
                verdict = ("check did not finish (timeout)" if rc == 124 else "check error rc=%d" % rc)
            res[(sid, prop)] = (verdict, secs)
    seeds = sorted(os.listdir(os.path.join(VERIF, "seeded")))
    by_hash = {}
    rows = []
    for sid in seeds:
        d = os.path.join(VERIF, "seeded", sid)
        try:
            meta = json.load(open(os.path.join(d, "meta.json")))
        except OSError:
            continue
        patch = open(os.path.join(d, "patch.diff"), "rb").read()
        body = b"\n".join(l for l in patch.splitlines() if l[:1] in (b"+", b"-") and not l.startswith((b"+++", b"---")))
        h = hashlib.sha1(body).hexdigest()[:8]
        dup = by_hash.setdefault(h, sid)
        files = sorted(set(re.findall(rb"^\+\+\+ b/(\S+)", patch, re.M)))
        for prop in [meta["property"]] + meta.get("also", []):
            verdict, secs = res.get((sid, prop), ("(not run)", 0))
            rows.append((sid, prop, ", ".join(f.decode() for f in files), meta.get("needs_to_manifest", ""),
                         verdict, secs, "" if dup == sid else "same change as %s" % dup))
    print("| seeded change | property | file(s) | needs, to manifest | quick check said | s | note |")
    print("|---|---|---|---|---|---|---|")
    for r in rows:
        print("| %s | %s | %s | %s | %s | %d | %s |" % tuple(str(x).replace("|", "/") if not isinstance(x, int) else x for x in r))
    n = len(rows)
    c = sum(1 for r in rows if r[4].startswith("caught"))
    t = sum(1 for r in rows if r[4].startswith("tie"))
    m = sum(1 for r in rows if r[4] == "MISSED")
    print()
    print("%d runs: %d caught with a replayed failing input, %d reported through a broken proof/correspondence only "
          "(`no-failing-input-found`), %d missed, %d not run." % (n, c, t, m, n - c - t - m))


if __name__ == "__main__":
    main()
