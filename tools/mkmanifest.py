"""Writes /verif/MANIFEST.json from the table below (kept in one place so that it stays valid)."""
import json, os, sys
VERIF = os.path.dirname(os.path.dirname(os.path.abspath(__file__)))
sys.path.insert(0, os.path.join(VERIF, "tools"))
from manifest_table import CHECKS, NOT_APPLICABLE  # noqa

ALL = ["C%02d" % i for i in range(1, 21)]

def main():
    checks = []
    for pid in ALL:
        if pid not in CHECKS:
            continue
        c = CHECKS[pid]
        checks.append({
            "property_id": pid,
            "quick_cmd": "./check %s --tier quick" % pid,
            "thorough_cmd": "./check %s --tier thorough" % pid,
            "evidence_file": "/verif/evidence/%s.json" % pid,
            "replay_cmd_template": "./check %s --replay {path}" % pid,
            "engine": "lean4-proof+correspondence",
            "level_claimed": {"category": "proof", "text": c["text"], "design_ref": "DESIGN.md section 6, " + pid},
            "level_note": c["note"],
            "technique": c["technique"],
        })
    na = [{"property_id": p, "reason": NOT_APPLICABLE[p]} for p in ALL if p not in CHECKS]
    missing = [p for p in ALL if p not in CHECKS and p not in NOT_APPLICABLE]
    assert not missing, missing
    m = {
        "version": 1,
        "setup_cmd": "cd lean && lake build",
        "hooks": {
            "guard": "MAKO_VERIF",
            "enable": "no hooks in /repo: the harness patches module attributes in-process (clocks, file-system calls, compile); MAKO_VERIF=1 is set by ./check and currently read by nothing in /repo",
            "baseline_off_cmd": "cd /repo && env -u MAKO_VERIF /venv/bin/python -m pytest -ra -q -p no:cacheprovider --timeout=900 --continue-on-collection-errors; rc=$?; rm -rf /repo/test/templates/modules; exit $rc",
            "source_commits": [],
            "add_only": True,
        },
        "engines": [{
            "name": "lean4-proof+correspondence",
            "path": "/verif/lean (model + theorems), /verif/harness (correspondence + oracles), /verif/tools/regen.py (translator)",
            "serves_properties": [c["property_id"] for c in checks],
            "kind_free_text": "Lean 4 theorems about an executable model of mako; model tied to /repo on every run by a translator for tables/constants and a differential correspondence check through the compiled Lean driver; direct property oracles on the implementation as failing-input search",
        }],
        "checks": checks,
        "not_applicable": na,
        "notes": "See DESIGN.md. ./check <ID> runs: regen -> lake build Props.<ID> -> #print axioms audit -> correspondence -> oracle -> classify -> evidence. known_findings.json lists recorded genuine defects.",
    }
    with open(os.path.join(VERIF, "MANIFEST.json"), "w") as f:
        json.dump(m, f, indent=1)
        f.write("\n")
    print("MANIFEST.json: %d checks, %d not_applicable" % (len(checks), len(na)))

main()
