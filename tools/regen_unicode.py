"""Regen group "Unicode": character-class tables of the *running interpreter*  ->  Generated/Unicode.lean

The lexer's regexes use `\\w` and `\\s` on `str` patterns and `Expression` applies `str.strip()`; what those
classes contain is a property of the CPython build mako runs on (its Unicode database), not of /repo.  The
tables are therefore probed from the interpreter that runs the check (`re.match(r'\\w', c)`, `re.match(r'\\s', c)`,
`str.isspace`) over every Unicode scalar value and written as sorted, disjoint, non-adjacent inclusive ranges.
Side conditions (sorted/disjoint; ASCII part equals the documented ASCII classes) are proved in
`MakoModel/Basic/Unicode.lean` by `decide +kernel`.
"""
from __future__ import annotations

import re
import sys

from regen import group, RegenError, HEADER


def ranges(pred):
    out = []
    start = None
    for cp in range(0x110000):
        ok = False if 0xD800 <= cp <= 0xDFFF else bool(pred(chr(cp)))
        if ok and start is None:
            start = cp
        if not ok and start is not None:
            out.append((start, cp - 1))
            start = None
    if start is not None:
        out.append((start, 0x10FFFF))
    return out


def lean_ranges(name, doc, rs):
    lines = ["/-- %s (%d ranges) -/" % (doc, len(rs)), "def %s : List (Nat × Nat) := [" % name]
    row = []
    for i, (a, b) in enumerate(rs):
        row.append("(%d, %d)%s" % (a, b, "," if i + 1 < len(rs) else ""))
        if len(row) == 8:
            lines.append("  " + " ".join(row))
            row = []
    if row:
        lines.append("  " + " ".join(row))
    lines.append("]")
    return "\n".join(lines)


@group("Unicode")
def gen(repo):
    w = re.compile(r"\w")
    s = re.compile(r"\s")
    rw = ranges(lambda c: w.match(c) is not None)
    rs = ranges(lambda c: s.match(c) is not None)
    ri = ranges(str.isspace)
    rstrip = ranges(lambda c: (c + "x" + c).strip() == "x")
    if ri != rstrip:
        raise RegenError("str.strip() does not strip exactly the str.isspace characters on this interpreter")
    if not rw or not rs:
        raise RegenError("empty class table")
    out = [HEADER % ("the running interpreter (Python %d.%d.%d, unicodedata %s)"
                     % (sys.version_info[0], sys.version_info[1], sys.version_info[2],
                        __import__("unicodedata").unidata_version)),
           "namespace MakoModel.Generated.Unicode", "",
           lean_ranges("wordRanges", r"code points c with `re.match(r'\w', c)`", rw), "",
           lean_ranges("spaceRanges", r"code points c with `re.match(r'\s', c)`", rs), "",
           lean_ranges("isspaceRanges", "code points c with `c.isspace()` (= what `str.strip()` removes)", ri), "",
           "end MakoModel.Generated.Unicode", ""]
    return "\n".join(out)
