"""Regen group "PathCfg": structural facts of the lookup code that the C09 state machine (Path/History.lean) assumes.

The path arithmetic itself (normpath/join/replace/lstrip, probe order, module path) is hand-modelled and compared with
the real code on every run; what no input/output comparison can show *by itself* is the control structure around it:

* `uriCheckTopLevel`        - `Template.__init__` contains, as a statement of its own top level (not nested under a
                              condition on any option), `if u_norm.startswith(".."): raise …TemplateLookupException(…)`;
* `uriCheckBeforeCompile`   - that statement precedes every top-level statement of `__init__` that compiles, reads or
                              loads anything (`_compile_text`, `_compile_from_file`, `_compile`, `_compile_module_file`,
                              `open`, `read_file`, `load_module`);
* `hasTemplateViaGet`       - `TemplateLookup` does not define `has_template`, and `TemplateCollection.has_template` is
                              `try: self.get_template(uri); return True / except …TemplateLookupException: return False`;
* `lookupTemplatesCarryUri` - every `Template(…)` constructed in mako/lookup.py is given `uri=uri`;
* `getTemplateReturns`      - every `return` of `TemplateLookup.get_template` is `self._check(uri, self._collection[uri])`,
                              `self._collection[uri]` or `self._load(<name>, uri)`, and every `return` of `_check` is
                              `template` or `self._load(template.filename, uri)`;
* `loadReturns`             - every `return` of `_load` is `template` (the collection entry or the object just
                              constructed and stored under `uri`) or `self._check(uri, template)`.

* `tempBesideModule`        - `_compile_module_file` creates its temporary file with `dir=os.path.dirname(outputpath)`
                              (every `tempfile.*` call in it carries that `dir=`), so that nothing - not even a
                              temporary file - is created outside the directory of the module file.

A shape that is not recognised makes the flag `false` (the named obligation in Props/C09.lean then fails); only a
missing class/function is a RegenError.
"""
from __future__ import annotations

import ast

from regen import group, find_class, find_func, parse, HEADER

COMPILERS = {"_compile_text", "_compile_from_file", "_compile", "_compile_module_file", "open", "read_file",
             "read_python_file", "load_module"}


def _callee(c):
    f = c.func
    return f.id if isinstance(f, ast.Name) else (f.attr if isinstance(f, ast.Attribute) else None)


def _is_uri_check(s):
    if not (isinstance(s, ast.If) and not s.orelse and len(s.body) == 1 and isinstance(s.body[0], ast.Raise)):
        return False
    t = s.test
    if not (isinstance(t, ast.Call) and isinstance(t.func, ast.Attribute) and t.func.attr == "startswith"
            and isinstance(t.func.value, ast.Name) and t.func.value.id == "u_norm" and len(t.args) == 1
            and isinstance(t.args[0], ast.Constant) and t.args[0].value == ".."):
        return False
    exc = s.body[0].exc
    return isinstance(exc, ast.Call) and _callee(exc) == "TemplateLookupException"


def _body(fn):
    b = fn.body
    if b and isinstance(b[0], ast.Expr) and isinstance(b[0].value, ast.Constant) and isinstance(b[0].value.value, str):
        b = b[1:]
    return b


def _src(n):
    return ast.unparse(n)


def _returns(fn):
    return [n for n in ast.walk(fn) if isinstance(n, ast.Return)]


def b(x):
    return "true" if x else "false"


@group("PathCfg")
def gen(repo) -> str:
    tt = parse(repo, "mako/template.py")
    init = find_func(find_class(tt, "Template", "mako/template.py").body, "__init__", "mako/template.py")
    body = _body(init)
    checks = [i for i, s in enumerate(body) if _is_uri_check(s)]
    top = len(checks) == 1
    compiling = [i for i, s in enumerate(body)
                 if any(isinstance(c, ast.Call) and _callee(c) in COMPILERS for c in ast.walk(s))]
    before = top and bool(compiling) and checks[0] < min(compiling)

    lt = parse(repo, "mako/lookup.py")
    coll = find_class(lt, "TemplateCollection", "mako/lookup.py")
    look = find_class(lt, "TemplateLookup", "mako/lookup.py")
    overridden = any(isinstance(n, ast.FunctionDef) and n.name == "has_template" for n in look.body)
    has = _body(find_func(coll.body, "has_template", "mako/lookup.py"))
    via = (not overridden and len(has) == 1 and isinstance(has[0], ast.Try) and not has[0].orelse and not has[0].finalbody
           and [_src(s) for s in has[0].body] == ["self.get_template(uri)", "return True"]
           and len(has[0].handlers) == 1
           and has[0].handlers[0].type is not None
           and _src(has[0].handlers[0].type) in ("exceptions.TemplateLookupException", "TemplateLookupException")
           and [_src(s) for s in has[0].handlers[0].body] == ["return False"])

    ctor = [c for c in ast.walk(lt) if isinstance(c, ast.Call) and _callee(c) == "Template"]
    carry = bool(ctor) and all(any(k.arg == "uri" and isinstance(k.value, ast.Name) and k.value.id == "uri"
                                   for k in c.keywords) for c in ctor)

    get = find_func(look.body, "get_template", "mako/lookup.py")
    chk = find_func(look.body, "_check", "mako/lookup.py")
    load = find_func(look.body, "_load", "mako/lookup.py")

    def ok_get(r):
        if r.value is None:
            return False
        s = _src(r.value)
        if s in ("self._check(uri, self._collection[uri])", "self._collection[uri]"):
            return True
        v = r.value
        return (isinstance(v, ast.Call) and _src(v.func) == "self._load" and len(v.args) == 2 and not v.keywords
                and isinstance(v.args[0], ast.Name) and _src(v.args[1]) == "uri")

    rg, rc, rl = _returns(get), _returns(chk), _returns(load)
    get_ok = (bool(rg) and all(ok_get(r) for r in rg)
              and bool(rc) and all(r.value is not None and _src(r.value) in ("template", "self._load(template.filename, uri)")
                                   for r in rc))
    load_ok = bool(rl) and all(r.value is not None and _src(r.value) in ("template", "self._check(uri, template)") for r in rl)
    # `template` in _load is only ever bound from the collection entry of `uri` or the Template constructed for `uri`
    binds = [n for n in ast.walk(load) if isinstance(n, ast.Assign)
             and any(isinstance(t, ast.Name) and t.id == "template" for t in n.targets)]
    for n in binds:
        v = n.value
        if not (_src(v) in ("self._collection[uri]", "None")
                or (isinstance(v, ast.Call) and _callee(v) == "Template"
                    and any(_src(t) == "self._collection[uri]" for t in n.targets))):
            load_ok = False

    cmf = find_func(tt.body, "_compile_module_file", "mako/template.py")
    tcalls = [c for c in ast.walk(cmf) if isinstance(c, ast.Call) and isinstance(c.func, ast.Attribute)
              and isinstance(c.func.value, ast.Name) and c.func.value.id == "tempfile"]
    temp_ok = bool(tcalls) and all(any(k.arg == "dir" and _src(k.value) == "os.path.dirname(outputpath)"
                                       for k in c.keywords) for c in tcalls)

    return (HEADER % "mako/template.py (Template.__init__), mako/lookup.py (TemplateCollection.has_template, TemplateLookup)"
            + "namespace MakoModel.Generated.PathCfg\n\n"
            + "/-- `if u_norm.startswith(\"..\"): raise TemplateLookupException` is one top-level statement of `Template.__init__` -/\n"
            + "def uriCheckTopLevel : Bool := %s\n\n" % b(top)
            + "/-- … and precedes every top-level statement that compiles, reads or loads -/\n"
            + "def uriCheckBeforeCompile : Bool := %s\n\n" % b(before)
            + "/-- `has_template` is `get_template` succeeding (not overridden by `TemplateLookup`) -/\n"
            + "def hasTemplateViaGet : Bool := %s\n\n" % b(via)
            + "/-- every `Template(…)` constructed in mako/lookup.py is given `uri=uri` (%d call sites) -/\n" % len(ctor)
            + "def lookupTemplatesCarryUri : Bool := %s\n\n" % b(carry)
            + "/-- `get_template` / `_check` only return collection entries or what `_load` returns (%d + %d returns) -/\n" % (len(rg), len(rc))
            + "def getTemplateReturns : Bool := %s\n\n" % b(get_ok)
            + "/-- `_load` only returns the collection entry / the template it constructed and stored for `uri` (%d returns) -/\n" % len(rl)
            + "def loadReturns : Bool := %s\n\n" % b(load_ok)
            + "/-- every temporary file of `_compile_module_file` is created in the module file's own directory (%d calls) -/\n" % len(tcalls)
            + "def tempBesideModule : Bool := %s\n\n" % b(temp_ok)
            + "end MakoModel.Generated.PathCfg\n")
