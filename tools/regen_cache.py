"""Regen group "Cache": the names and constants that tie a cached section's generated wrapper
(mako/codegen.py), the internal name of an anonymous block (mako/parsetree.py) and the programmatic
invalidation API (mako/cache.py) together.  The cache model (lean/MakoModel/Cache/Model.lean) is
parameterised by them; `lean/MakoModel/Cache/Lemmas.lean` proves by `decide` that

* the slice that strips the attribute prefix has the prefix' length and `cache_key` carries the prefix,
* `Cache.invalidate_body` / `invalidate_def` / `invalidate_closure` address exactly the key *and* the
  `__M_defname` that `write_cache_decorator` emits for a page / top-level def / nested def,
* `_get_cache_kw` pops the same keyword the generated code passes.

What is read (shape understood or RegenError):

codegen.py  `_GenerateRenderMethod.__init__`      name = "render_%s" % node.funcname ; name = "render_body"
            `write_cache_decorator`               pa.startswith("cache_"), pa != "cache_key", pa[6:],
                                                  "timeout" -> int(eval(..)), "...__M_defname=%r" in both
                                                  call formats, key default repr(name), the page tag's
                                                  attributes merged before the section's own
            `write_inline_def`                    whether the decorator is written with the def's `buffered` flag (since
                                                  /repo ec9a6d2) or with the literal False (before)
parsetree.py `BlockTag.funcname`                  self.name or "__M_anon_%d" % (self.lineno,)
cache.py    `invalidate_body/def/closure`         (key expression, __M_defname expression)
            `_get_cache_kw`                       kw.pop("__M_defname", None), setdefault("context", ...) on a copy
            `_ctx_get_or_create`                  `if not self.template.cache_enabled: return creation_function()`
template.py `Template.__init__`                   module_id = re.sub(r"\\W", "_", uri)
ext/beaker_cache.py `BeakerCacheImpl`             the names it defines (does it override `CacheImpl.set`?); `_get_cache`:
                                                  `starttime` in the per-call arguments unconditionally
codegen.py  `visitBlockTag`                       is the block's return value written where the block stands?
codegen.py  `write_variable_declares`             ends, unconditionally, with `__M_writer = context.writer()` (so the cache
                                                  decorator, which calls it, writes to the buffer on top at call time)
runtime.py  `_inherit_from`, `_populate_self_namespace`   `local` = the namespace of the template whose callables run
"""
from __future__ import annotations

import ast
import os
import re

from regen import group, RegenError, parse, find_class, find_func, const, lean_str, lean_string, HEADER


def _fmt_prefix(node, what):
    """`"render_%s" % x`  ->  ("render_", x-node)   (the format must be  <literal prefix>%s|%d)"""
    if not (isinstance(node, ast.BinOp) and isinstance(node.op, ast.Mod)):
        raise RegenError("%s: expected `\"...%%s\" %% x`, found %s" % (what, ast.unparse(node)[:80]))
    f = const(node.left, str, what)
    if not (f.endswith("%s") or f.endswith("%d")) or "%" in f[:-2]:
        raise RegenError("%s: format %r is not <prefix>%%s" % (what, f))
    return f[:-2], node.right


def _name_is(node, ident):
    return isinstance(node, ast.Name) and node.id == ident


def _invalidate_shape(fn, rel):
    """body is `self.invalidate(<key>, __M_defname=<defname>)`; returns the two expression nodes"""
    calls = [n.value for n in fn.body if isinstance(n, ast.Expr) and isinstance(n.value, ast.Call)]
    calls = [c for c in calls if isinstance(c.func, ast.Attribute) and c.func.attr == "invalidate"
             and _name_is(c.func.value, "self")]
    if len(calls) != 1:
        raise RegenError("%s: %s is not a single self.invalidate(...) call" % (rel, fn.name))
    c = calls[0]
    if len(c.args) != 1 or len(c.keywords) != 1 or c.keywords[0].arg is None:
        raise RegenError("%s: %s: expected invalidate(key, <kw>=defname)" % (rel, fn.name))
    return c.args[0], c.keywords[0].arg, c.keywords[0].value


def _write_status(failure):
    """lean/MakoModel/Generated/CacheStatus.lean: builds iff the last translation of this group succeeded.  When the
    source shape is not understood, Generated/Cache.lean keeps the content of the last *successful* translation (which
    may stem from another working tree); this file then makes `MakoModel.Cache.Lemmas` - and with it every C17 theorem -
    fail with the translator's message instead of with a stale constant's side condition.  The model and the driver do
    not import it, so the failing-input search still runs."""
    from regen import GEN_DIR, lean_string
    if failure is None:
        body = ("/-- the last run of tools/regen_cache.py understood the source -/\n"
                "theorem regen_ok : True := trivial\n")
    else:
        msg = "tools/regen_cache.py could not read the source (Generated/Cache.lean is STALE): " + failure
        body = ("/-- the last run of tools/regen_cache.py FAILED; this file does not build on purpose -/\n"
                "theorem regen_ok : True := by\n  fail %s\n" % lean_string(msg))
    text = (HEADER % "the outcome of tools/regen_cache.py") + "namespace MakoModel.Generated.CacheStatus\n\n" + body + \
        "\nend MakoModel.Generated.CacheStatus\n"
    path = os.path.join(GEN_DIR, "CacheStatus.lean")
    old = open(path, encoding="utf-8").read() if os.path.exists(path) else None
    if old != text:
        os.makedirs(GEN_DIR, exist_ok=True)
        tmp = path + ".tmp%d" % os.getpid()
        with open(tmp, "w", encoding="utf-8") as f:
            f.write(text)
        os.replace(tmp, path)


@group("Cache")
def gen(repo) -> str:
    try:
        text = _gen(repo)
    except RegenError as e:
        _write_status(str(e))
        raise
    _write_status(None)
    return text


def _gen(repo) -> str:
    rel_c, rel_g, rel_p, rel_t = "mako/cache.py", "mako/codegen.py", "mako/parsetree.py", "mako/template.py"
    tc, tg, tp, tt = parse(repo, rel_c), parse(repo, rel_g), parse(repo, rel_p), parse(repo, rel_t)

    # ---- codegen: names of the render callables --------------------------------------------------
    grm = find_class(tg, "_GenerateRenderMethod", rel_g)
    init = find_func(grm.body, "__init__", rel_g)
    top_prefix = body_name = None
    for n in ast.walk(init):
        if isinstance(n, ast.Assign) and len(n.targets) == 1 and _name_is(n.targets[0], "name"):
            if isinstance(n.value, ast.BinOp):
                p, arg = _fmt_prefix(n.value, "codegen name of a top-level def")
                if ast.unparse(arg) != "node.funcname":
                    raise RegenError("%s: top-level def name is not formatted from node.funcname" % rel_g)
                top_prefix = p
            elif isinstance(n.value, ast.Constant):
                body_name = const(n.value, str, "codegen name of the body callable")
    if top_prefix is None or body_name is None:
        raise RegenError("%s: _GenerateRenderMethod.__init__: name assignments not found" % rel_g)

    # ---- codegen: write_cache_decorator ---------------------------------------------------------------
    wcd = find_func(grm.body, "write_cache_decorator", rel_g)
    prefixes, noteq, slices = set(), set(), set()
    for n in ast.walk(wcd):
        if isinstance(n, ast.Call) and isinstance(n.func, ast.Attribute) and n.func.attr == "startswith" \
                and _name_is(n.func.value, "pa") and len(n.args) == 1:
            prefixes.add(const(n.args[0], str, "startswith argument"))
        if isinstance(n, ast.Compare) and _name_is(n.left, "pa") and len(n.ops) == 1 and isinstance(n.ops[0], ast.NotEq):
            noteq.add(const(n.comparators[0], str, "pa != ..."))
        if isinstance(n, ast.Subscript) and _name_is(n.value, "pa") and isinstance(n.slice, ast.Slice) \
                and n.slice.upper is None and n.slice.step is None and n.slice.lower is not None:
            slices.add(const(n.slice.lower, int, "pa[n:]"))
    if len(prefixes) != 1 or len(noteq) != 1 or len(slices) != 1:
        raise RegenError("%s: write_cache_decorator: attribute filter not understood: prefixes=%r excluded=%r slices=%r"
                         % (rel_g, sorted(prefixes), sorted(noteq), sorted(slices)))
    # the key: node_or_pagetag.parsed_attributes.get("cache_key", repr(name))
    key_attr = None
    key_default_is_repr_name = False
    for n in ast.walk(wcd):
        if isinstance(n, ast.Assign) and len(n.targets) == 1 and _name_is(n.targets[0], "cachekey"):
            v = n.value
            if isinstance(v, ast.Call) and isinstance(v.func, ast.Attribute) and v.func.attr == "get" and len(v.args) == 2:
                key_attr = const(v.args[0], str, "cache key attribute")
                key_default_is_repr_name = ast.unparse(v.args[1]) == "repr(name)"
    if key_attr is None or not key_default_is_repr_name:
        raise RegenError("%s: write_cache_decorator: cachekey is not parsed_attributes.get(<attr>, repr(name))" % rel_g)
    # timeout: if "timeout" in cache_args: cache_args["timeout"] = int(eval(cache_args["timeout"]))
    timeout_key = None
    for n in ast.walk(wcd):
        if isinstance(n, ast.If) and isinstance(n.test, ast.Compare) and len(n.test.ops) == 1 \
                and isinstance(n.test.ops[0], ast.In) and _name_is(n.test.comparators[0], "cache_args"):
            k = const(n.test.left, str, "converted key")
            body = ast.unparse(n.body[0]) if n.body else ""
            if body.replace('"', "'") != "cache_args['%s'] = int(eval(cache_args['%s']))" % (k, k):
                raise RegenError("%s: write_cache_decorator: %r is not converted with int(eval(..)): %s" % (rel_g, k, body))
            timeout_key = k
    if timeout_key is None:
        raise RegenError("%s: write_cache_decorator: no int conversion found" % rel_g)
    # page attributes are merged first, the section's own second
    upd = [n for n in ast.walk(wcd) if isinstance(n, ast.Call) and isinstance(n.func, ast.Attribute)
           and n.func.attr == "update" and _name_is(n.func.value, "cache_args")]
    upd.sort(key=lambda n: (n.lineno, n.col_offset))
    srcs = []
    for u in upd:
        s = ast.unparse(u)
        if "self.compiler.pagetag.parsed_attributes" in s:
            srcs.append("page")
        elif "node_or_pagetag.parsed_attributes" in s:
            srcs.append("section")
        else:
            srcs.append("?")
    # both call formats pass __M_defname=%r with `name`
    fmt_texts = ["".join(c.value for c in ast.walk(n.left) if isinstance(c, ast.Constant) and isinstance(c.value, str))
                 for n in ast.walk(wcd) if isinstance(n, ast.BinOp) and isinstance(n.op, ast.Mod)
                 and "_ctx_get_or_create" in ast.unparse(n.left)]
    if len(fmt_texts) < 2:
        raise RegenError("%s: write_cache_decorator: expected two `_ctx_get_or_create` call formats (buffered / not)" % rel_g)
    m = set()
    for t in fmt_texts:
        found = re.findall(r"%s(\w+)=%r\)", t)
        if len(found) != 1:
            raise RegenError("%s: write_cache_decorator: call format without a single <defname kw>=%%r: %r" % (rel_g, t))
        m.add(found[0])
    if len(m) != 1:
        raise RegenError("%s: write_cache_decorator: the defname keyword of the generated call is not unique: %r" % (rel_g, sorted(m)))
    gen_defname_kw = m.pop()
    # write_inline_def hands buffered=False to the decorator
    wid = find_func(grm.body, "write_inline_def", rel_g)
    inline_buffered = None
    for n in ast.walk(wid):
        if isinstance(n, ast.Call) and isinstance(n.func, ast.Attribute) and n.func.attr == "write_cache_decorator":
            if len(n.args) >= 4:
                a = n.args[3]
                inline_buffered = "const:%r" % a.value if isinstance(a, ast.Constant) else "expr:" + ast.unparse(a)
            for kw in n.keywords:
                if kw.arg == "buffered":
                    a = kw.value
                    inline_buffered = "const:%r" % a.value if isinstance(a, ast.Constant) else "expr:" + ast.unparse(a)
    if inline_buffered is None:
        raise RegenError("%s: write_inline_def does not call write_cache_decorator with a buffered argument" % rel_g)
    inline_passes_buffered = inline_buffered != "const:False"
    if inline_buffered not in ("const:False", "expr:buffered"):
        raise RegenError("%s: write_inline_def: buffered argument %s not understood" % (rel_g, inline_buffered))

    # ---- parsetree: anonymous block name --------------------------------------------------------------
    bt = find_class(tp, "BlockTag", rel_p)
    fn = find_func(bt.body, "funcname", rel_p)
    ret = [n for n in fn.body if isinstance(n, ast.Return)]
    if len(ret) != 1 or not (isinstance(ret[0].value, ast.BoolOp) and isinstance(ret[0].value.op, ast.Or)
                             and len(ret[0].value.values) == 2 and ast.unparse(ret[0].value.values[0]) == "self.name"):
        raise RegenError("%s: BlockTag.funcname is not `self.name or <fmt> %% (self.lineno,)`" % rel_p)
    anon_prefix, arg = _fmt_prefix(ret[0].value.values[1], "anonymous block name")
    if ast.unparse(arg) not in ("(self.lineno,)", "self.lineno"):
        raise RegenError("%s: anonymous block name is not formatted from self.lineno: %s" % (rel_p, ast.unparse(arg)))

    # ---- cache.py -----------------------------------------------------------------------------------
    cc = find_class(tc, "Cache", rel_c)
    kb, kwb, db = _invalidate_shape(find_func(cc.body, "invalidate_body", rel_c), rel_c)
    inv_body_key = const(kb, str, "invalidate_body key")
    inv_body_def = const(db, str, "invalidate_body defname")
    kd, kwd, dd = _invalidate_shape(find_func(cc.body, "invalidate_def", rel_c), rel_c)
    inv_def_key, a1 = _fmt_prefix(kd, "invalidate_def key")
    inv_def_def, a2 = _fmt_prefix(dd, "invalidate_def defname")
    if not (_name_is(a1, "name") and _name_is(a2, "name")):
        raise RegenError("%s: invalidate_def does not format its `name` argument" % rel_c)
    kc, kwc, dc = _invalidate_shape(find_func(cc.body, "invalidate_closure", rel_c), rel_c)
    if not (_name_is(kc, "name") and _name_is(dc, "name")):
        raise RegenError("%s: invalidate_closure is not invalidate(name, <kw>=name)" % rel_c)
    if len({kwb, kwd, kwc}) != 1:
        raise RegenError("%s: invalidate_* use different defname keywords: %r" % (rel_c, sorted({kwb, kwd, kwc})))
    api_defname_kw = kwb
    gck = find_func(cc.body, "_get_cache_kw", rel_c)
    pop_kw = ctx_kw = None
    for n in ast.walk(gck):
        if isinstance(n, ast.Call) and isinstance(n.func, ast.Attribute) and _name_is(n.func.value, "kw") \
                and n.func.attr == "pop" and n.args:
            pop_kw = const(n.args[0], str, "_get_cache_kw pop")
        if isinstance(n, ast.Call) and isinstance(n.func, ast.Attribute) and n.func.attr == "setdefault" and n.args:
            ctx_kw = const(n.args[0], str, "_get_cache_kw setdefault")
    if pop_kw is None or ctx_kw is None:
        raise RegenError("%s: _get_cache_kw: pop / setdefault not found" % rel_c)
    # the context is added to a *copy*:  if context and self.impl.pass_context: tmpl_kw = tmpl_kw.copy(); tmpl_kw.setdefault(..)
    ctx_if = [n for n in gck.body if isinstance(n, ast.If) and "pass_context" in ast.unparse(n.test)]
    if len(ctx_if) != 1:
        raise RegenError("%s: _get_cache_kw: no single `if context and self.impl.pass_context` block" % rel_c)
    stmts = [ast.unparse(x) for x in ctx_if[0].body]
    ctx_copies = (len(stmts) == 2 and stmts[0] == "tmpl_kw = tmpl_kw.copy()" and stmts[1].startswith("tmpl_kw.setdefault("))
    ctx_guard = ast.unparse(ctx_if[0].test)
    goc = find_func(cc.body, "_ctx_get_or_create", rel_c)
    first = goc.body[1] if goc.body and isinstance(goc.body[0], ast.Expr) and isinstance(goc.body[0].value, ast.Constant) \
        else (goc.body[0] if goc.body else None)
    bypass = (isinstance(first, ast.If) and ast.unparse(first.test) == "not self.template.cache_enabled"
              and len(first.body) == 1 and ast.unparse(first.body[0]) == "return creation_function()")
    cinit = find_func(cc.body, "__init__", rel_c)
    id_src = None
    for n in ast.walk(cinit):
        if isinstance(n, ast.Assign) and len(n.targets) == 1 and ast.unparse(n.targets[0]) == "self.id":
            id_src = ast.unparse(n.value)
    if id_src is None:
        raise RegenError("%s: Cache.__init__ does not assign self.id" % rel_c)

    # ---- template.py: module id ---------------------------------------------------------------------
    tcl = find_class(tt, "Template", rel_t)
    tinit = find_func(tcl.body, "__init__", rel_t)
    mod_id_uri = None
    for n in ast.walk(tinit):
        if isinstance(n, ast.If) and _name_is(n.test, "uri"):
            for s in n.body:
                if isinstance(s, ast.Assign) and ast.unparse(s.targets[0]) == "self.module_id":
                    mod_id_uri = s.value
    if mod_id_uri is None:
        raise RegenError("%s: Template.__init__: `if uri: self.module_id = ...` not found" % rel_t)
    v = mod_id_uri
    if not (isinstance(v, ast.Call) and ast.unparse(v.func) == "re.sub" and len(v.args) == 3 and _name_is(v.args[2], "uri")):
        raise RegenError("%s: module_id is not re.sub(<pattern>, <repl>, uri): %s" % (rel_t, ast.unparse(v)))
    mod_pat = const(v.args[0], str, "module_id pattern")
    mod_rep = const(v.args[1], str, "module_id replacement")
    if mod_pat != r"\W" or len(mod_rep) != 1:
        raise RegenError("%s: module_id pattern/replacement not understood: %r, %r" % (rel_t, mod_pat, mod_rep))

    # ---- ext/beaker_cache.py: which CacheImpl methods the Beaker implementation overrides ---------------------
    rel_b = "mako/ext/beaker_cache.py"
    tb = parse(repo, rel_b)
    bimpl = find_class(tb, "BeakerCacheImpl", rel_b)
    bnames = set()
    for n in bimpl.body:
        if isinstance(n, ast.FunctionDef):
            bnames.add(n.name)
        if isinstance(n, ast.Assign):
            for tg in n.targets:
                if isinstance(tg, ast.Name):
                    bnames.add(tg.id)
    base = find_class(tc, "CacheImpl", rel_c)
    base_set = find_func(base.body, "set", rel_c)
    base_raises = any(isinstance(n, ast.Raise) and "NotImplementedError" in ast.unparse(n) for n in ast.walk(base_set))
    cset = find_func(cc.body, "set", rel_c)
    calls_impl_set = any(isinstance(n, ast.Call) and ast.unparse(n.func) == "self.impl.set" for n in ast.walk(cset))
    if not (base_raises and calls_impl_set):
        raise RegenError("%s: Cache.set -> self.impl.set / CacheImpl.set raising NotImplementedError not recognised" % rel_c)

    # ---- ext/beaker_cache.py: `_get_cache` hands `starttime` to every Beaker call, with or without a timeout -----------
    gcf = find_func(bimpl.body, "_get_cache", rel_b)
    ca_assigns = [n for n in ast.walk(gcf) if isinstance(n, ast.Assign) and len(n.targets) == 1
                  and _name_is(n.targets[0], "cache_args")]
    uncond = [n for n in gcf.body if isinstance(n, ast.Assign) and len(n.targets) == 1 and _name_is(n.targets[0], "cache_args")]
    starttime_always = (len(ca_assigns) == 1 and len(uncond) == 1 and isinstance(uncond[0].value, ast.Dict)
                        and [ast.unparse(k) for k in uncond[0].value.keys] == ["'starttime'"]
                        and [ast.unparse(v) for v in uncond[0].value.values] == ["self.cache.starttime"])
    # nothing deletes / pops / overwrites it afterwards, and it is what is returned
    for n in ast.walk(gcf):
        if isinstance(n, (ast.Delete,)) and "cache_args" in ast.unparse(n):
            starttime_always = False
        if isinstance(n, ast.Call) and isinstance(n.func, ast.Attribute) and _name_is(n.func.value, "cache_args") \
                and n.func.attr in ("pop", "clear", "popitem"):
            starttime_always = False
        if isinstance(n, ast.Assign) and isinstance(n.targets[0], ast.Subscript) and _name_is(n.targets[0].value, "cache_args") \
                and ast.unparse(n.targets[0].slice) == "'starttime'":
            starttime_always = False
    rets = [n for n in ast.walk(gcf) if isinstance(n, ast.Return)]
    if not (len(rets) == 1 and ast.unparse(rets[0].value) in ("(cache, cache_args)", "cache, cache_args")):
        starttime_always = False
    # get_or_create / set / get / invalidate all go through _get_cache and pass its second result on as **kw
    users = {}
    for name in ("get_or_create", "set", "put", "get", "invalidate"):
        f = next((n for n in bimpl.body if isinstance(n, ast.FunctionDef) and n.name == name), None)
        if f is None:
            continue
        src = ast.unparse(f)
        users[name] = "cache, kw = self._get_cache(**kw)" in src and "**kw)" in src.split("self._get_cache(**kw)")[-1]
    starttime_passed_on = all(users.get(n, False) for n in ("get_or_create", "get") if n in users) and "get_or_create" in users
    cstart = None
    for n in ast.walk(cinit):
        if isinstance(n, ast.Assign) and len(n.targets) == 1 and ast.unparse(n.targets[0]) == "self.starttime":
            cstart = ast.unparse(n.value)

    # ---- codegen.visitBlockTag: is what a block returns written at the place where the block stands? ------------------
    vbt = find_func(grm.body, "visitBlockTag", rel_g)
    lines_emitted = [c.value for n in ast.walk(vbt) if isinstance(n, ast.Call) and isinstance(n.func, ast.Attribute)
                     and n.func.attr == "writeline" for c in ast.walk(n) if isinstance(c, ast.Constant)
                     and isinstance(c.value, str) and "%s(" in c.value]
    if len(lines_emitted) != 2:
        raise RegenError("%s: visitBlockTag: expected two call formats (anonymous / named), found %r" % (rel_g, lines_emitted))
    written = [l.startswith("__M_writer(") for l in lines_emitted]
    if written[0] != written[1]:
        raise RegenError("%s: visitBlockTag: anonymous and named blocks are called differently: %r" % (rel_g, lines_emitted))
    block_result_written = written[0]

    # ---- codegen: the cache decorator fetches the writer itself (buffer on top at CALL time) ---------------------------
    wvd = find_func(grm.body, "write_variable_declares", rel_g)
    last = wvd.body[-1]
    writer_refetched = (isinstance(last, ast.Expr) and isinstance(last.value, ast.Call)
                        and ast.unparse(last.value.func) == "self.printer.writeline" and len(last.value.args) == 1
                        and isinstance(last.value.args[0], ast.Constant)
                        and last.value.args[0].value == "__M_writer = context.writer()")
    deco_declares = [n for n in ast.walk(wcd) if isinstance(n, ast.Call) and ast.unparse(n.func) == "self.write_variable_declares"]
    # ... before it emits the wrapper's `__M_writer(...)` / `return ...` line
    decorator_fetches_writer = writer_refetched and len(deco_declares) == 1

    # ---- runtime._inherit_from: `local` in the context an inherited template runs with is that template's namespace -----
    rel_r = "mako/runtime.py"
    tr = parse(repo, rel_r)
    inh = find_func(tr.body, "_inherit_from", rel_r)
    local_is_own = False
    for n in ast.walk(inh):
        if isinstance(n, ast.Assign) and ast.unparse(n.value) == "ih.inherits":
            tg = sorted(ast.unparse(t) for t in n.targets)
            if "lclcontext._data['local']" in tg:
                local_is_own = True
    psn = find_func(tr.body, "_populate_self_namespace", rel_r)
    self_local = any(isinstance(n, ast.Assign) and ast.unparse(n.value) == "self_ns"
                     and any(ast.unparse(t) == "context._data['local']" for t in n.targets) for n in ast.walk(psn))
    deco_uses_local = all("context.get('local')." in t and "cache._ctx_get_or_create(" in t for t in fmt_texts)

    def b(x):
        return "true" if x else "false"

    L = [HEADER % "mako/codegen.py (write_cache_decorator, write_inline_def, _GenerateRenderMethod.__init__), "
                  "mako/parsetree.py (BlockTag.funcname), mako/cache.py (Cache), mako/template.py (module_id)",
         "namespace MakoModel.Generated.Cache",
         "",
         "/-- `pa.startswith(%r)` : prefix of the tag attributes handed to the back end -/" % list(prefixes)[0],
         "def cachePrefix : List Char := %s" % lean_str(list(prefixes)[0]),
         "/-- `pa[%d:]` : what is cut off -/" % list(slices)[0],
         "def prefixSlice : Nat := %d" % list(slices)[0],
         "/-- `pa != %r` : the attribute that is the key expression, not an argument -/" % list(noteq)[0],
         "def excludedAttr : List Char := %s" % lean_str(list(noteq)[0]),
         "/-- `parsed_attributes.get(%r, repr(name))` -/" % key_attr,
         "def cacheKeyAttr : List Char := %s" % lean_str(key_attr),
         "/-- the argument converted with `int(eval(..))` at compile time -/",
         "def timeoutKey : List Char := %s" % lean_str(timeout_key),
         "/-- order of the `cache_args.update(..)` calls in `write_cache_decorator` -/",
         "def mergeOrder : List String := [%s]" % ", ".join('"%s"' % s for s in srcs),
         "/-- keyword carrying the callable's name in the generated `_ctx_get_or_create(...)` call -/",
         "def genDefnameKw : List Char := %s" % lean_str(gen_defname_kw),
         "/-- `write_inline_def` passes its `buffered` flag on to the decorator (False: it passes the literal `False`) -/",
         "def inlinePassesBuffered : Bool := %s" % b(inline_passes_buffered),
         "/-- `name = %r %% node.funcname` for a top-level def / named block -/" % (top_prefix + "%s"),
         "def toplevelPrefix : List Char := %s" % lean_str(top_prefix),
         "/-- `name = %r` for the page body -/" % body_name,
         "def bodyName : List Char := %s" % lean_str(body_name),
         "/-- `BlockTag.funcname`: `%s%%d %% lineno` for an anonymous block -/" % anon_prefix,
         "def anonPrefix : List Char := %s" % lean_str(anon_prefix),
         "/-- `Cache.invalidate_body`: key and defname -/",
         "def invBodyKey : List Char := %s" % lean_str(inv_body_key),
         "def invBodyDefname : List Char := %s" % lean_str(inv_body_def),
         "/-- `Cache.invalidate_def(name)`: prefixes of key and defname -/",
         "def invDefKeyPrefix : List Char := %s" % lean_str(inv_def_key),
         "def invDefDefnamePrefix : List Char := %s" % lean_str(inv_def_def),
         "/-- keyword used by `invalidate_*` and the one popped by `_get_cache_kw` -/",
         "def apiDefnameKw : List Char := %s" % lean_str(api_defname_kw),
         "def popDefnameKw : List Char := %s" % lean_str(pop_kw),
         "/-- `tmpl_kw.setdefault(%r, context)` -/" % ctx_kw,
         "def contextKw : List Char := %s" % lean_str(ctx_kw),
         "/-- `_get_cache_kw`: `if %s:` copies `tmpl_kw` before `setdefault` (the memo entry is never touched) -/" % ctx_guard,
         "def contextAddedToCopy : Bool := %s" % b(ctx_copies),
         "def contextGuard : String := %s" % lean_string(ctx_guard),
         "/-- `_ctx_get_or_create` starts with `if not self.template.cache_enabled: return creation_function()` -/",
         "def disabledBypassesBackend : Bool := %s" % b(bypass),
         "/-- `Cache.__init__`: `self.id = %s` -/" % id_src,
         "def cacheIdIsModuleName : Bool := %s" % b(id_src == "template.module.__name__"),
         "/-- `Cache.set` calls `impl.set`, `CacheImpl.set` raises NotImplementedError; does `BeakerCacheImpl` define `set`? "
         "(it defines: %s) -/" % ", ".join(sorted(x for x in bnames if not x.startswith("_"))),
         "def beakerImplDefinesSet : Bool := %s" % b("set" in bnames),
         "/-- `BeakerCacheImpl._get_cache`: the per-call arguments are `{'starttime': self.cache.starttime}` plus, with a "
         "timeout, `expiretime` - never without `starttime` -/",
         "def beakerAlwaysPassesStarttime : Bool := %s" % b(starttime_always),
         "/-- `get_or_create` / `get` (and `set`, `invalidate`) hand those arguments to Beaker -/",
         "def beakerStarttimeReachesCalls : Bool := %s" % b(starttime_passed_on),
         "/-- `Cache.__init__`: `self.starttime = %s` -/" % cstart,
         "def starttimeIsModuleModifiedTime : Bool := %s" % b(cstart == "template.module._modified_time"),
         "/-- `write_cache_decorator` calls `write_variable_declares`, whose last statement - unconditionally - emits "
         "`__M_writer = context.writer()`: the wrapper writes to the buffer on top when it is CALLED -/",
         "def decoratorFetchesWriter : Bool := %s" % b(decorator_fetches_writer),
         "/-- the generated wrapper asks `context.get('local').cache`; `runtime._inherit_from` sets `local` of the context an "
         "inherited template runs with to that template's own namespace, `_populate_self_namespace` does so for the rendered one -/",
         "def localIsDeclaringTemplate : Bool := %s" % b(local_is_own and self_local and deco_uses_local),
         "/-- `visitBlockTag` writes what the block's callable returns (`__M_writer(f() or '')`) at the block's place -/",
         "def blockResultWritten : Bool := %s" % b(block_result_written),
         "/-- `Template.__init__`: `module_id = re.sub(%r, %r, uri)` -/" % (mod_pat, mod_rep),
         "def moduleIdReplacement : Char := Char.ofNat %d" % ord(mod_rep),
         "",
         "end MakoModel.Generated.Cache",
         ""]
    return "\n".join(L)
