"""Regen group "Pipeline" (property C02).

Extracts, with `ast` only (nothing imported from mako):
  * `DEFAULT_ESCAPES` of mako/filters.py          -> `defaultEscapes : List (List Char × List Char)`
  * the default `default_filters` that `Template.__init__` installs when the argument is None
    (`self.default_filters = ["str"]`)            -> `templateDefaultFilters : List (List Char)`
  * the default of the `buffer_filters` parameter -> `templateBufferFilters`
  * the regex literals `create_filter_callable` matches filter entries with (mako/codegen.py): the decode regex
    must be `decode\\..+`, the call regex `(.+?)(\\(.*\\))` with or without a final `$`
                                                  -> `callRegexAnchored : Bool`
  * from `SourceGenerator` (mako/_ast_util.py), which re-emits the entries of a filter list: which operator visitors
    parenthesise their own output, which kinds `visit_operand` parenthesises, which visitors use `visit_operand`
                                                  -> `selfParenthesisingVisitors`, `operandWrappedKinds`, `operandUsers`
  * the white-space code points of the running interpreter (`str.strip()` without argument, used by
    `match_expression` on the escapes)            -> `pyWhitespace : List Nat`
into lean/MakoModel/Generated/Pipeline.lean.
"""
from __future__ import annotations

import ast
import sys

from regen import group, RegenError, parse, module_assign, find_class, find_func, const, HEADER


def lchar(c):
    o = ord(c)
    if 32 <= o < 127 and c not in "'\\":
        return "'%s'" % c
    return "Char.ofNat %d" % o


def lstr(s):
    return "[" + ", ".join(lchar(c) for c in s) + "]"


def str_list(node, what):
    if not isinstance(node, (ast.List, ast.Tuple)):
        raise RegenError("%s: expected a list/tuple literal, found %s" % (what, ast.dump(node)[:80]))
    return [const(e, str, what) for e in node.elts]


@group("Pipeline")
def gen(repo) -> str:
    # --- DEFAULT_ESCAPES ------------------------------------------------------------------------
    rel = "mako/filters.py"
    tree = parse(repo, rel)
    d = module_assign(tree, "DEFAULT_ESCAPES", rel)
    if not isinstance(d, ast.Dict):
        raise RegenError("%s: DEFAULT_ESCAPES is not a dict literal" % rel)
    table = []
    for k, v in zip(d.keys, d.values):
        if k is None:
            raise RegenError("%s: DEFAULT_ESCAPES uses ** unpacking" % rel)
        table.append((const(k, str, "DEFAULT_ESCAPES key"), const(v, str, "DEFAULT_ESCAPES value")))
    # a dict literal keeps the last value of a repeated key
    seen = {}
    for k, v in table:
        seen[k] = v
    table = [(k, seen[k]) for k in dict.fromkeys(k for k, _ in table)]

    # --- Template.__init__ defaults ----------------------------------------------------------------
    rel = "mako/template.py"
    tree = parse(repo, rel)
    init = find_func(find_class(tree, "Template", rel).body, "__init__", rel)
    # parameter defaults
    a = init.args
    names = [x.arg for x in a.args]
    defaults = dict(zip(names[len(names) - len(a.defaults):], a.defaults))
    for kw, dv in zip(a.kwonlyargs, a.kw_defaults):
        if dv is not None:
            defaults[kw.arg] = dv
    if "default_filters" not in defaults or "buffer_filters" not in defaults:
        raise RegenError("%s: Template.__init__ has no default_filters/buffer_filters parameter" % rel)
    dfp = defaults["default_filters"]
    if not (isinstance(dfp, ast.Constant) and dfp.value is None):
        # a literal default list is also understood
        default_filters = str_list(dfp, "default_filters parameter default")
    else:
        # look for:  if default_filters is None: self.default_filters = [...]
        default_filters = None
        for node in ast.walk(init):
            if isinstance(node, ast.If):
                t = node.test
                if (isinstance(t, ast.Compare) and isinstance(t.left, ast.Name) and t.left.id == "default_filters"
                        and len(t.ops) == 1 and isinstance(t.ops[0], ast.Is)
                        and isinstance(t.comparators[0], ast.Constant) and t.comparators[0].value is None):
                    for st in node.body:
                        if (isinstance(st, ast.Assign) and len(st.targets) == 1
                                and isinstance(st.targets[0], ast.Attribute)
                                and st.targets[0].attr == "default_filters"):
                            default_filters = str_list(st.value, "self.default_filters")
        if default_filters is None:
            raise RegenError("%s: cannot find `if default_filters is None: self.default_filters = [...]`" % rel)
    buffer_filters = str_list(defaults["buffer_filters"], "buffer_filters parameter default")

    # --- the two regexes of create_filter_callable ---------------------------------------------------
    rel = "mako/codegen.py"
    tree = parse(repo, rel)
    cfc = None
    for node in ast.walk(tree):
        if isinstance(node, ast.FunctionDef) and node.name == "create_filter_callable":
            cfc = node
    if cfc is None:
        raise RegenError("%s: no create_filter_callable" % rel)
    lits = []
    for node in ast.walk(cfc):
        if (isinstance(node, ast.Call) and isinstance(node.func, ast.Attribute) and node.func.attr == "match"
                and isinstance(node.func.value, ast.Name) and node.func.value.id == "re" and node.args):
            if len(node.args) != 2 or node.keywords:
                raise RegenError("%s: create_filter_callable calls re.match with flags" % rel)
            lits.append(const(node.args[0], str, "re.match pattern in create_filter_callable"))
    CALL_RX = {r"(.+?)(\(.*\))": False, r"(.+?)(\(.*\))$": True}
    call_rx = [l for l in lits if l in CALL_RX]
    if sorted(lits) != sorted([r"decode\..+"] + call_rx) or len(call_rx) != 1:
        raise RegenError("%s: create_filter_callable matches %r; the model knows `decode\\..+` and "
                         "`(.+?)(\\(.*\\))` with or without a final `$`" % (rel, lits))
    anchored = CALL_RX[call_rx[0]]

    # --- how the re-emitter of filter arguments groups operator expressions ------------------------------
    rel = "mako/_ast_util.py"
    tree = parse(repo, rel)
    sg = find_class(tree, "SourceGenerator", rel)

    def is_write(stmt, text):
        return (isinstance(stmt, ast.Expr) and isinstance(stmt.value, ast.Call)
                and isinstance(stmt.value.func, ast.Attribute) and stmt.value.func.attr == "write"
                and isinstance(stmt.value.func.value, ast.Name) and stmt.value.func.value.id == "self"
                and len(stmt.value.args) == 1 and isinstance(stmt.value.args[0], ast.Constant)
                and stmt.value.args[0].value == text)

    def body_of(fn):
        b = fn.body
        if b and isinstance(b[0], ast.Expr) and isinstance(b[0].value, ast.Constant) and isinstance(b[0].value.value, str):
            b = b[1:]
        return b
    self_paren = []
    for kind in ("BinOp", "BoolOp", "Compare", "UnaryOp"):
        fn = find_func(sg.body, "visit_" + kind, rel)
        b = body_of(fn)
        # the visitor parenthesises its own output iff it opens with write("(") and closes with write(")")
        # and writes no other parenthesis on its own
        if len(b) >= 2 and is_write(b[0], "(") and is_write(b[-1], ")"):
            self_paren.append(kind)
    vo = find_func(sg.body, "visit_operand", rel)
    wrapped = []
    for node in ast.walk(vo):
        if (isinstance(node, ast.If) and isinstance(node.test, ast.Call) and isinstance(node.test.func, ast.Name)
                and node.test.func.id == "isinstance" and len(node.test.args) == 2):
            t = node.test.args[1]
            elts = t.elts if isinstance(t, ast.Tuple) else [t]
            ok = len(node.body) == 3 and is_write(node.body[0], "(") and is_write(node.body[2], ")")
            if ok:
                for e in elts:
                    wrapped.append(e.id if isinstance(e, ast.Name) else e.attr if isinstance(e, ast.Attribute) else "?")
    # any mention of `visit_operand` in the method counts as "uses it" (see the docstring of the generated fact)
    operand_users = []
    for kind in ("BinOp", "BoolOp", "Compare", "UnaryOp", "Attribute", "Subscript", "Call", "IfExp", "Starred"):
        fn = find_func(sg.body, "visit_" + kind, rel)
        if any(isinstance(n, ast.Attribute) and n.attr == "visit_operand" for n in ast.walk(fn)):
            operand_users.append(kind)

    ws = [c for c in range(sys.maxunicode + 1) if not (0xD800 <= c <= 0xDFFF) and chr(c).isspace()]
    # str.strip() strips exactly the characters for which str.isspace() holds
    probe = "".join(chr(c) for c in ws)
    if probe.strip() != "":
        raise RegenError("str.strip() and str.isspace() disagree in this interpreter")

    out = [HEADER % "mako/filters.py (DEFAULT_ESCAPES), mako/template.py (Template.__init__), mako/codegen.py (create_filter_callable regexes), mako/_ast_util.py (SourceGenerator grouping), the running interpreter (str.isspace)"]
    out.append("namespace MakoModel.Generated.Pipeline\n\n")
    out.append("/-- `mako.filters.DEFAULT_ESCAPES`: filter flag -> callee text emitted by the code generator -/\n")
    out.append("def defaultEscapes : List (List Char × List Char) :=\n  [ ")
    out.append(",\n    ".join("(%s, %s)" % (lstr(k), lstr(v)) for k, v in table))
    out.append(" ]\n\n")
    out.append("/-- `Template.__init__`: `default_filters` when the argument is `None` -/\n")
    out.append("def templateDefaultFilters : List (List Char) := [%s]\n\n" % ", ".join(lstr(s) for s in default_filters))
    out.append("/-- `Template.__init__`: default of `buffer_filters` -/\n")
    out.append("def templateBufferFilters : List (List Char) := [%s]\n\n" % ", ".join(lstr(s) for s in buffer_filters))
    out.append("/-- code points `c` with `chr(c).isspace()` (= what `str.strip()` removes) in the interpreter the model is validated against -/\n")
    out.append("def pyWhitespace : List Nat := [%s]\n\n" % ", ".join(str(c) for c in ws))
    out.append("/-- `create_filter_callable`: the call regex is %s - whether it ends with `$` -/\n" % call_rx[0])
    out.append("def callRegexAnchored : Bool := %s\n\n" % ("true" if anchored else "false"))
    out.append("/-- `SourceGenerator` (mako/_ast_util.py, the re-emitter of filter-list entries): operator visitors among BinOp, "
               "BoolOp, Compare, UnaryOp whose body opens with `self.write(\"(\")` and closes with `self.write(\")\")` -/\n")
    out.append("def selfParenthesisingVisitors : List (List Char) := [%s]\n\n" % ", ".join(lstr(k) for k in self_paren))
    out.append("/-- node kinds `visit_operand` writes inside parentheses -/\n")
    out.append("def operandWrappedKinds : List (List Char) := [%s]\n\n" % ", ".join(lstr(k) for k in wrapped))
    out.append("/-- visitors (among BinOp, BoolOp, Compare, UnaryOp, Attribute, Subscript, Call, IfExp, Starred) whose method body "
               "MENTIONS `visit_operand` at all.  This pins: a visitor that stops going through `visit_operand` altogether "
               "drops out of the list.  It does NOT pin that every operand slot of the visitor is written through it (one "
               "`self.visit(...)` beside a `self.visit_operand(...)` is not seen) nor in which order; that is covered by "
               "the correspondence / oracle on filter-call arguments and by C19's printer model. -/\n")
    out.append("def operandUsers : List (List Char) := [%s]\n\n" % ", ".join(lstr(k) for k in operand_users))
    out.append("end MakoModel.Generated.Pipeline\n")
    return "".join(out)
