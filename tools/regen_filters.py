"""Regen group "Filters": tables and constants of mako/filters.py  ->  lean/MakoModel/Generated/Filters.lean

From the source text of /repo/mako/filters.py (Python `ast`, nothing imported from mako):
  * `xml_escapes` (dict literal, duplicate keys resolved as Python does: last wins),
  * the character class of the regex used by `xml_escape` (parsed with the interpreter's own regex parser, so
    that equivalent spellings of the class give the same table),
  * `DEFAULT_ESCAPES` (name -> callee string),
  * what `html_escape`, `html_entities_escape`, `html_entities_unescape`, `_html_entities_escaper` are bound to,
  * the class of `XMLEntityEscaper.__escapable`, the format of the numeric reference in `__escape`,
  * the pattern/flags of `XMLEntityEscaper.__characterrefs` (fingerprint only: the matcher is transcribed by hand
    in Filters/Model.lean and compared by correspondence).
From the running interpreter (because that is what mako imports / runs on):
  * `html.entities.codepoint2name` / `name2codepoint`,
  * `markupsafe.escape` probed on every BMP character (5 replacements, identity elsewhere),
  * `str.isspace` (the set `str.strip()` removes), the regex classes `\\w` and `\\d` (with digit values).
"""
from __future__ import annotations

import ast
import hashlib

from regen import group, RegenError, parse, module_assign, find_class, find_func, const, lean_char, lean_str, HEADER

REL = "mako/filters.py"   # + mako/template.py (DefTemplate), mako/runtime.py (_render), mako/codegen.py (visitExpression)


def _re_parser():
    try:
        import re._parser as P      # 3.11+
        import re._constants as C
    except ImportError:             # pragma: no cover
        import sre_parse as P
        import sre_constants as C
    return P, C


def _literal_class(items, C, what):
    """list of code points of an IN node consisting of literals only"""
    out = []
    for op, av in items:
        if op is C.LITERAL:
            out.append(av)
        elif op is C.RANGE:
            lo, hi = av
            if hi - lo > 64:
                raise RegenError("%s: range too large in character class" % what)
            out.extend(range(lo, hi + 1))
        else:
            raise RegenError("%s: unsupported item %s in character class" % (what, op))
    return out


def regex_single_char_class(pattern, what):
    """code points matched by a regex that matches exactly one character out of a finite set:
    `[...]`, `([...])`, `a|b|[cd]`, a single literal"""
    P, C = _re_parser()
    try:
        tree = list(P.parse(pattern))
    except Exception as e:
        raise RegenError("%s: regex does not parse: %s" % (what, e))
    while len(tree) == 1 and tree[0][0] is C.SUBPATTERN:
        tree = list(tree[0][1][3])
    if len(tree) != 1:
        raise RegenError("%s: regex %r is not a single-character class" % (what, pattern))
    op, av = tree[0]
    if op is C.IN:
        return _literal_class(av, C, what)
    if op is C.LITERAL:
        return [av]
    if op is C.BRANCH:
        out = []
        for alt in av[1]:
            alt = list(alt)
            if len(alt) != 1:
                raise RegenError("%s: alternative of %r is not one character" % (what, pattern))
            o, a = alt[0]
            if o is C.IN:
                out.extend(_literal_class(a, C, what))
            elif o is C.LITERAL:
                out.append(a)
            else:
                raise RegenError("%s: unsupported alternative in %r" % (what, pattern))
        return out
    raise RegenError("%s: regex %r is not a single-character class" % (what, pattern))


def regex_literals_or_above(pattern, what):
    """for `["&<>]|[^\\x00-\\x7f]`: (explicit code points, N) meaning: the listed characters, or any code point > N"""
    P, C = _re_parser()
    try:
        tree = list(P.parse(pattern))
    except Exception as e:
        raise RegenError("%s: regex does not parse: %s" % (what, e))
    if len(tree) != 1 or tree[0][0] is not C.BRANCH:
        raise RegenError("%s: %r is not `class | negated-range`" % (what, pattern))
    lits, above = [], None
    for alt in tree[0][1][1]:
        alt = list(alt)
        if len(alt) != 1:
            raise RegenError("%s: alternative of %r is not one character" % (what, pattern))
        o, a = alt[0]
        if o is C.IN and a and a[0][0] is C.NEGATE:
            rest = a[1:]
            if len(rest) != 1 or rest[0][0] is not C.RANGE or rest[0][1][0] != 0 or above is not None:
                raise RegenError("%s: negated class of %r is not [^\\x00-\\xNN]" % (what, pattern))
            above = rest[0][1][1]
        elif o is C.IN:
            lits.extend(_literal_class(a, C, what))
        elif o is C.LITERAL:
            lits.append(a)
        else:
            raise RegenError("%s: unsupported alternative in %r" % (what, pattern))
    if above is None:
        raise RegenError("%s: %r has no negated ASCII range" % (what, pattern))
    return lits, above


def dotted(node, what):
    parts = []
    while isinstance(node, ast.Attribute):
        parts.append(node.attr)
        node = node.value
    if not isinstance(node, ast.Name):
        raise RegenError("%s: expected a dotted name, found %s" % (what, ast.dump(node)[:80]))
    parts.append(node.id)
    return ".".join(reversed(parts))


def str_dict(node, what):
    if not isinstance(node, ast.Dict):
        raise RegenError("%s is no longer a dict literal" % what)
    d = {}
    for k, v in zip(node.keys, node.values):
        if k is None:
            raise RegenError("%s: ** in dict literal" % what)
        d[const(k, str, what + " key")] = const(v, str, what + " value")
    return d


def class_assign(cls, name, rel):
    for node in cls.body:
        if isinstance(node, ast.Assign):
            for t in node.targets:
                if isinstance(t, ast.Name) and t.id == name:
                    return node.value
    raise RegenError("%s: class %s has no attribute %s" % (rel, cls.name, name))


def re_compile_args(node, what):
    if not (isinstance(node, ast.Call) and dotted(node.func, what) == "re.compile" and node.args):
        raise RegenError("%s is no longer re.compile(...)" % what)
    pat = const(node.args[0], str, what + " pattern")
    flags = ast.unparse(node.args[1]) if len(node.args) > 1 else ""
    for kw in node.keywords:
        if kw.arg == "flags":
            flags = ast.unparse(kw.value)
    return pat, flags


def ranges(cps):
    r = []
    for c in cps:
        if r and r[-1][1] == c - 1:
            r[-1][1] = c
        else:
            r.append([c, c])
    return r


def lean_pairs_char_str(d):
    return "[\n" + ",\n".join("  (%s, %s)" % (lean_char(k), lean_str(v)) for k, v in d) + "\n]"


@group("Filters")
def gen(repo) -> str:
    tree = parse(repo, REL)

    # --- imports the model relies on
    imported = {}
    for node in tree.body:
        if isinstance(node, ast.ImportFrom):
            for a in node.names:
                imported[a.asname or a.name] = (node.module, a.name)
    for nm in ("codepoint2name", "name2codepoint"):
        if imported.get(nm) != ("html.entities", nm):
            raise RegenError("%s: %s is no longer imported from html.entities" % (REL, nm))
    if imported.get("quote_plus") != ("urllib.parse", "quote_plus"):
        raise RegenError("%s: quote_plus is no longer imported from urllib.parse" % REL)

    # --- xml_escapes and the class of xml_escape's regex
    xml_escapes = str_dict(module_assign(tree, "xml_escapes", REL), "xml_escapes")
    for k in xml_escapes:
        if len(k) != 1:
            raise RegenError("xml_escapes: key %r is not a single character" % k)
    f = find_func(tree.body, "xml_escape", REL)
    rets = [n for n in ast.walk(f) if isinstance(n, ast.Return)]
    if len(rets) != 1 or not isinstance(rets[0].value, ast.Call):
        raise RegenError("xml_escape: body is no longer `return re.sub(...)`")
    call = rets[0].value
    if dotted(call.func, "xml_escape") != "re.sub" or len(call.args) != 3:
        raise RegenError("xml_escape: body is no longer `return re.sub(pattern, repl, string)`")
    xml_pattern = const(call.args[0], str, "xml_escape pattern")
    repl = call.args[1]
    ok = (isinstance(repl, ast.Lambda) and isinstance(repl.body, ast.Subscript)
          and isinstance(repl.body.value, ast.Name) and repl.body.value.id == "xml_escapes")
    if not ok:
        raise RegenError("xml_escape: replacement is no longer `lambda m: xml_escapes[m.group()]`")
    xml_class = regex_single_char_class(xml_pattern, "xml_escape")

    # --- url_escape: encode("utf8") then quote_plus
    fu = find_func(tree.body, "url_escape", REL)
    src_u = ast.unparse(fu)
    calls = [dotted(n.func, "url_escape") for n in ast.walk(fu) if isinstance(n, ast.Call)
             and isinstance(n.func, (ast.Name, ast.Attribute))]
    encs = [n.args[0].value for n in ast.walk(fu) if isinstance(n, ast.Call) and isinstance(n.func, ast.Attribute)
            and n.func.attr == "encode" and n.args and isinstance(n.args[0], ast.Constant)]
    if "quote_plus" not in calls or len(encs) != 1:
        raise RegenError("url_escape: body is no longer `string.encode(<enc>); quote_plus(string)`: " + src_u[:120])
    import codecs
    try:
        url_codec = codecs.lookup(encs[0]).name
    except LookupError:
        raise RegenError("url_escape: unknown codec %r" % (encs[0],))

    # --- DEFAULT_ESCAPES, html_escape, entity escaper bindings
    default_escapes = str_dict(module_assign(tree, "DEFAULT_ESCAPES", REL), "DEFAULT_ESCAPES")
    html_callee = dotted(module_assign(tree, "html_escape", REL), "html_escape")
    ent_escape = dotted(module_assign(tree, "html_entities_escape", REL), "html_entities_escape")
    ent_unescape = dotted(module_assign(tree, "html_entities_unescape", REL), "html_entities_unescape")
    inst = module_assign(tree, "_html_entities_escaper", REL)
    if not (isinstance(inst, ast.Call) and not inst.keywords):
        raise RegenError("_html_entities_escaper is no longer a plain constructor call")
    escaper_ctor = "%s(%s)" % (dotted(inst.func, "_html_entities_escaper"),
                               ", ".join(dotted(a, "_html_entities_escaper argument") for a in inst.args))
    find_func(tree.body, "trim", REL)

    # --- XMLEntityEscaper
    cls = find_class(tree, "XMLEntityEscaper", REL)
    esc_pat, esc_flags = re_compile_args(class_assign(cls, "__escapable", REL), "XMLEntityEscaper.__escapable")
    if esc_flags:
        raise RegenError("XMLEntityEscaper.__escapable now has flags %s" % esc_flags)
    xee_lits, xee_above = regex_literals_or_above(esc_pat, "XMLEntityEscaper.__escapable")
    ref_pat, ref_flags = re_compile_args(class_assign(cls, "__characterrefs", REL), "XMLEntityEscaper.__characterrefs")
    fe = find_func(cls.body, "__escape", REL)
    fmts = [n.left.value for n in ast.walk(fe) if isinstance(n, ast.BinOp) and isinstance(n.op, ast.Mod)
            and isinstance(n.left, ast.Constant) and isinstance(n.left.value, str)]
    if len(fmts) != 1:
        raise RegenError("XMLEntityEscaper.__escape: numeric reference is no longer one `\"...\" % codepoint`")
    numref_format = fmts[0]
    fi = find_func(cls.body, "__init__", REL)
    ent_fmts = [n.left.value for n in ast.walk(fi) if isinstance(n, ast.BinOp) and isinstance(n.op, ast.Mod)
                and isinstance(n.left, ast.Constant) and isinstance(n.left.value, str)]
    if len(ent_fmts) != 1:
        raise RegenError("XMLEntityEscaper.__init__: entity text is no longer one `\"&%s;\" % n`")
    entity_format = ent_fmts[0]
    fingerprint = hashlib.sha1((ref_pat + "\0" + ref_flags).encode()).hexdigest()[:16]

    # --- where the output settings travel: DefTemplate.__init__ (mako/template.py), runtime._render (mako/runtime.py)
    ttree = parse(repo, "mako/template.py")
    dcls = find_class(ttree, "DefTemplate", "mako/template.py")
    dinit = find_func(dcls.body, "__init__", "mako/template.py")
    dargs = [a.arg for a in dinit.args.args]
    if len(dargs) < 2:
        raise RegenError("DefTemplate.__init__ no longer takes (self, parent, ...)")
    selfn, parentn = dargs[0], dargs[1]

    def names_of(node, what):
        """a tuple/list of string constants, given literally or as a class attribute of DefTemplate"""
        if isinstance(node, ast.Attribute) and isinstance(node.value, ast.Name) and node.value.id in (selfn, "DefTemplate"):
            node = class_assign(dcls, node.attr, "mako/template.py")
        elif isinstance(node, ast.Name):
            node = class_assign(dcls, node.id, "mako/template.py")
        if not isinstance(node, (ast.Tuple, ast.List)):
            raise RegenError("%s: not a literal tuple/list of names" % what)
        return [const(e, str, what) for e in node.elts]
    inherited = []
    for st in ast.walk(dinit):
        if isinstance(st, ast.Assign) and len(st.targets) == 1:
            tg, val = st.targets[0], st.value
            if (isinstance(tg, ast.Attribute) and isinstance(tg.value, ast.Name) and tg.value.id == selfn
                    and isinstance(val, ast.Attribute) and isinstance(val.value, ast.Name) and val.value.id == parentn
                    and val.attr == tg.attr):
                inherited.append(tg.attr)
        if isinstance(st, ast.For) and isinstance(st.target, ast.Name):
            v = st.target.id
            copies = [c for c in ast.walk(st) if isinstance(c, ast.Call) and isinstance(c.func, ast.Name) and c.func.id == "setattr"
                      and len(c.args) == 3 and isinstance(c.args[0], ast.Name) and c.args[0].id == selfn
                      and isinstance(c.args[1], ast.Name) and c.args[1].id == v
                      and isinstance(c.args[2], ast.Call) and isinstance(c.args[2].func, ast.Name) and c.args[2].func.id == "getattr"
                      and len(c.args[2].args) >= 2 and isinstance(c.args[2].args[0], ast.Name) and c.args[2].args[0].id == parentn
                      and isinstance(c.args[2].args[1], ast.Name) and c.args[2].args[1].id == v]
            if copies:
                inherited.extend(names_of(st.iter, "DefTemplate.__init__ loop"))
    if not inherited:
        raise RegenError("DefTemplate.__init__: no `self.X = parent.X` copies recognised")
    inherited = sorted(set(inherited))
    rtree = parse(repo, "mako/runtime.py")
    rfun = find_func(rtree.body, "_render", "mako/runtime.py")
    buf_args = []
    for c in ast.walk(rfun):
        if (isinstance(c, ast.Call) and isinstance(c.func, (ast.Attribute, ast.Name))
                and (c.func.attr if isinstance(c.func, ast.Attribute) else c.func.id) == "FastEncodingBuffer"
                and (c.args or c.keywords)):
            named = {kw.arg: kw.value for kw in c.keywords}
            pos = list(c.args)
            e_ = named.get("encoding", pos[0] if pos else None)
            r_ = named.get("errors", pos[1] if len(pos) > 1 else None)
            if e_ is None or r_ is None:
                raise RegenError("runtime._render: FastEncodingBuffer(...) without encoding/errors")
            buf_args = [dotted(e_, "_render encoding"), dotted(r_, "_render errors")]
    if not buf_args:
        raise RegenError("runtime._render no longer builds FastEncodingBuffer(encoding=..., errors=...)")

    # --- which filter sources decide that an expression goes through create_filter_callable (codegen.visitExpression)
    ctree = parse(repo, "mako/codegen.py")
    gcls = find_class(ctree, "_GenerateRenderMethod", "mako/codegen.py")
    vexp = find_func(gcls.body, "visitExpression", "mako/codegen.py")
    ifs = [n for n in vexp.body if isinstance(n, ast.If)]
    if len(ifs) != 1:
        raise RegenError("codegen.visitExpression: expected exactly one top-level `if`")
    expr_sources = set()
    for n in ast.walk(ifs[0].test):
        if isinstance(n, ast.Attribute):
            try:
                expr_sources.add(dotted(n, "visitExpression"))
            except RegenError:
                pass
    expr_sources = sorted(expr_sources)

    # --- from the interpreter
    import html.entities as he
    c2n = sorted(he.codepoint2name.items())
    n2c = sorted(he.name2codepoint.items())
    for c, n in c2n:
        if not (isinstance(c, int) and isinstance(n, str) and n.isascii() and n):
            raise RegenError("html.entities.codepoint2name: unexpected entry %r: %r" % (c, n))
    try:
        import markupsafe
    except ImportError as e:
        raise RegenError("markupsafe is not importable: %s" % e)
    five = "&<>\"'"
    ms = []
    for ch in five:
        out = str(markupsafe.escape(ch))
        ms.append((ch, out))
    others = "".join(chr(c) for c in range(0x10000) if not (0xD800 <= c <= 0xDFFF) and chr(c) not in five)
    got = str(markupsafe.escape(others))
    if got != others:
        bad = next((a for a, b in zip(others, got) if a != b), "?")
        raise RegenError("markupsafe.escape is not the identity outside & < > \" ' (first difference at U+%04X)" % ord(bad))
    for ch in others[:: 251]:
        if str(markupsafe.escape(ch)) != ch:
            raise RegenError("markupsafe.escape(%r) is not the identity" % ch)

    probe = markupsafe.escape("<&>\"'")
    ms_markup = (isinstance(probe, markupsafe.Markup) and markupsafe.escape(probe) is probe or
                 (isinstance(probe, markupsafe.Markup) and str(markupsafe.escape(probe)) == str(probe)
                  and isinstance(markupsafe.escape(probe), markupsafe.Markup)))
    ms_strip_keeps = isinstance(probe.strip(), markupsafe.Markup)
    ms_str_plain = type(str(probe)) is str
    import re
    cps = [c for c in range(0x110000) if not (0xD800 <= c <= 0xDFFF)]
    space = [c for c in cps if chr(c).isspace()]
    for c in space:
        if (chr(c) + "a" + chr(c)).strip() != "a":
            raise RegenError("str.strip() does not remove U+%04X although isspace()" % c)
    word_re, digit_re = re.compile(r"\w"), re.compile(r"\d")
    word = [c for c in cps if word_re.match(chr(c))]
    digit = [c for c in cps if digit_re.match(chr(c))]
    drs = ranges(digit)
    for lo, hi in drs:
        for c in range(lo, hi + 1):
            if int(chr(c)) != (c - lo) % 10 or int(chr(c), 16) != (c - lo) % 10:
                raise RegenError("digit U+%04X does not have value (c - start of its run) mod 10" % c)

    def nat_pairs(rs):
        return "[" + ", ".join("(%d, %d)" % (a, b) for a, b in rs) + "]"

    L = []
    L.append(HEADER % (REL + " (+ html.entities, markupsafe, str.isspace, re of the running interpreter)"))
    L.append("namespace MakoModel.Generated.Filters\n")
    L.append("/-- `xml_escapes` (dict literal, in source order) -/")
    L.append("def xmlEscapes : List (Char × List Char) := " + lean_pairs_char_str(list(xml_escapes.items())) + "\n")
    L.append("/-- characters matched by the regex of `xml_escape`: %s -/" % xml_pattern.replace("-/", "- /"))
    L.append("def xmlClass : List Char := [" + ", ".join(lean_char(chr(c)) for c in xml_class) + "]\n")
    L.append("/-- `DEFAULT_ESCAPES` -/")
    L.append("def defaultEscapes : List (List Char × List Char) := [\n" +
             ",\n".join("  (%s, %s)" % (lean_str(k), lean_str(v)) for k, v in default_escapes.items()) + "\n]\n")
    L.append("/-- what `html_escape` is bound to -/")
    L.append("def htmlEscapeCallee : List Char := " + lean_str(html_callee))
    L.append("/-- what `html_entities_escape` / `html_entities_unescape` / `_html_entities_escaper` are bound to -/")
    L.append("def entityEscapeCallee : List Char := " + lean_str(ent_escape))
    L.append("def entityUnescapeCallee : List Char := " + lean_str(ent_unescape))
    L.append("def entityEscaperCtor : List Char := " + lean_str(escaper_ctor))
    L.append("/-- the codec `url_escape` encodes with before `quote_plus` (normalised codec name) -/")
    L.append("def urlCodec : List Char := " + lean_str(url_codec))
    L.append("")
    L.append("/-- `markupsafe.escape` of the running interpreter: the characters it changes (identity on the rest of the BMP, checked at regen time) -/")
    L.append("def markupsafeEscapes : List (Char × List Char) := " + lean_pairs_char_str(ms) + "\n")
    L.append("/-- probed: `markupsafe.escape` returns a `Markup` and leaves a `Markup` argument unchanged; `Markup.strip()` stays a `Markup`; `str(Markup)` is a plain `str` -/")
    L.append("def markupsafeIdempotentOnMarkup : Bool := %s" % ("true" if ms_markup else "false"))
    L.append("def markupStripKeepsMarkup : Bool := %s" % ("true" if ms_strip_keeps else "false"))
    L.append("def strOfMarkupIsPlain : Bool := %s\n" % ("true" if ms_str_plain else "false"))
    L.append("/-- `XMLEntityEscaper.__escapable`: these characters, or any code point above `xeeAsciiMax` -/")
    L.append("def xeeEscapable : List Char := [" + ", ".join(lean_char(chr(c)) for c in xee_lits) + "]")
    L.append("def xeeAsciiMax : Nat := %d" % xee_above)
    L.append("/-- format of the numeric reference in `XMLEntityEscaper.__escape`, of the entity text in `__init__` -/")
    L.append("def numRefFormat : List Char := " + lean_str(numref_format))
    L.append("def entityFormat : List Char := " + lean_str(entity_format))
    L.append("/-- fingerprint (sha1 prefix) of pattern+flags of `XMLEntityEscaper.__characterrefs`; pattern kept for reference:")
    L.append(ref_pat.replace("-/", "- /") + "\nflags: " + ref_flags + " -/")
    L.append("def characterrefsFingerprint : List Char := " + lean_str(fingerprint))
    L.append("-- characterrefs-fingerprint: " + fingerprint + "\n")
    L.append("/-- attributes `DefTemplate.__init__` copies from its parent template (mako/template.py), sorted -/")
    L.append("def defTemplateInherited : List (List Char) := [" + ", ".join(lean_str(a) for a in inherited) + "]")
    L.append("/-- `runtime._render`: the (encoding, errors) arguments of the `FastEncodingBuffer` that produces the bytes -/")
    L.append("def renderBufferArgs : List (List Char) := [" + ", ".join(lean_str(a) for a in buf_args) + "]")
    L.append("/-- dotted names occurring in the test of the single top-level `if` of `codegen.visitExpression` (the condition that sends an expression through `create_filter_callable`); only membership of names is recorded, not how the test combines them -/")
    L.append("def exprFilterSources : List (List Char) := [" + ", ".join(lean_str(a) for a in expr_sources) + "]\n")
    L.append("/-- `html.entities.codepoint2name` of the running interpreter (sorted by code point), %d entries -/" % len(c2n))
    L.append("def codepoint2name : List (Nat × List Char) := [\n" +
             ",\n".join("  (%d, %s)" % (c, lean_str(n)) for c, n in c2n) + "\n]\n")
    L.append("/-- `html.entities.name2codepoint` (sorted by name), %d entries -/" % len(n2c))
    L.append("def name2codepoint : List (List Char × Nat) := [\n" +
             ",\n".join("  (%s, %d)" % (lean_str(n), c) for n, c in n2c) + "\n]\n")
    L.append("/-- code points with `str.isspace()` (what `str.strip()` removes), %d -/" % len(space))
    L.append("def spaceChars : List Nat := [" + ", ".join(str(c) for c in space) + "]\n")
    L.append("/-- regex class `\\d` on str patterns: inclusive ranges; the digit value of `c` in `(lo, hi)` is `(c - lo) %% 10` (checked at regen time against int()), %d code points -/" % len(digit))
    L.append("def digitRanges : List (Nat × Nat) := " + nat_pairs(drs) + "\n")
    wr = ranges(word)
    L.append("/-- regex class `\\w` on str patterns: inclusive ranges sorted by lower bound, in chunks of 32 each preceded by its largest upper bound; %d code points in %d ranges -/" % (len(word), len(wr)))
    chunks = [wr[i:i + 32] for i in range(0, len(wr), 32)]
    L.append("def wordChunks : List (Nat × List (Nat × Nat)) := [\n" +
             ",\n".join("  (%d, [%s])" % (ch[-1][1], ", ".join("(%d, %d)" % (a, b) for a, b in ch)) for ch in chunks) + "\n]\n")
    L.append("end MakoModel.Generated.Filters\n")
    return "\n".join(L)
