#!/usr/bin/env python3
"""tools/validate.py – validate MANIFEST.json and every evidence file against the schemas in /root/.vp (run with python3-vt)."""
import json, glob, os, sys
import jsonschema
V = os.path.dirname(os.path.dirname(os.path.abspath(__file__)))
ok = True
try:
    jsonschema.validate(json.load(open(V + "/MANIFEST.json")), json.load(open("/root/.vp/MANIFEST.schema.json")))
    print("MANIFEST.json valid")
except Exception as e:
    ok = False; print("MANIFEST.json INVALID:", str(e)[:300])
es = json.load(open("/root/.vp/EVIDENCE.schema.json"))
man = json.load(open(V + "/MANIFEST.json"))
for c in man["checks"]:
    f = c["evidence_file"]
    try:
        ev = json.load(open(f)); jsonschema.validate(ev, es)
        cov = ev["coverage"]
        flag = "" if cov.get("obligations") == cov.get("discharged") and not ev.get("violations") else "  <-- obligations!=discharged or violations"
        print("%s valid: tier=%s thms=%s/%s evals=%s nontrivial=%s wall=%ss%s" % (os.path.basename(f), ev["tier"], cov.get("discharged"), cov.get("obligations"), cov.get("evaluations"), cov.get("distinct_nontrivial"), ev["wall_s"], flag))
    except Exception as e:
        ok = False; print(f, "INVALID/missing:", str(e)[:200])
ids = {c["property_id"] for c in man["checks"]} | {n["property_id"] for n in man.get("not_applicable", [])}
missing = [("C%02d" % i) for i in range(1, 21) if ("C%02d" % i) not in ids]
if missing: ok = False; print("properties neither claimed nor not_applicable:", missing)
sys.exit(0 if ok else 1)
