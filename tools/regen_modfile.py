"""Regen group "ModFile" (C15): what the module-file protocol of mako/template.py, mako/util.py and
mako/codegen.py says *now*, as Lean constants:

* `magicNumber`        - codegen.MAGIC_NUMBER
* `verifyDirMaxTries`  - the number of os.makedirs attempts after which util.verify_directory re-raises
* `staleCmp`           - the comparison `os.stat(path)[ST_MTIME] <op> filemtime` of Template._compile_from_file
* `missingCheck`       - `not os.path.exists(path) or ...` is present
* `recordsFilenameVerbatim` - codegen records the template file name exactly as passed (`self.filename = filename`)
* `fileRecheck`        - the re-check after loading also fires when the recorded template file name differs from `filename`
* `fileCmpNormalised`  - … compared as `os.path.normpath(module._template_filename) != os.path.normpath(filename)`
* `magicRecheck`       - the `module._magic_number != codegen.MAGIC_NUMBER` re-check after loading is present
* `writerOps`          - the sequence of file-system primitives of the non-hook branch of _compile_module_file
                         (mkstemp -> write -> close -> rename) read from its AST; the model's writer IS this list
* `writeLoops`         - whether the code writes until complete (os.write's return value checked in a loop, or a
                         buffered file object's .write) - False: a short write is ignored
* `closeOnRaise`       - the write happens inside a `with` block: the file is closed while the exception unwinds
* `tmpInTargetDir`     - mkstemp(dir=os.path.dirname(outputpath)): the temp file lives beside the destination, so
                         the final move is a rename within one directory (atomic)
* `dropsBytecode`      - after the built-in writer the `__pycache__` entry of the module path is unlinked
* `dropsBytecodeHook`  - … and after a user-supplied module_writer as well
* `mtimesWholeSeconds` - the source's mtime is read as whole seconds like the module's (`[stat.ST_MTIME]`)
* `hookArgsOk`         - module_writer is called as module_writer(source, outputpath)

A statement shape that is not understood raises RegenError (broken tie).
"""
from __future__ import annotations

import ast

from regen import group, RegenError, parse, module_assign, find_class, find_func, const, HEADER

TEMPLATE = "mako/template.py"
UTIL = "mako/util.py"
CODEGEN = "mako/codegen.py"

CMP = {ast.Lt: "lt", ast.LtE: "le", ast.Gt: "gt", ast.GtE: "ge", ast.Eq: "eq", ast.NotEq: "ne"}


def dotted(node):
    """a.b.c -> 'a.b.c' (None if not a plain dotted name)"""
    parts = []
    while isinstance(node, ast.Attribute):
        parts.append(node.attr)
        node = node.value
    if isinstance(node, ast.Name):
        parts.append(node.id)
        return ".".join(reversed(parts))
    return None


def call_name(node):
    return dotted(node.func) if isinstance(node, ast.Call) else None


def is_name(node, name):
    return isinstance(node, ast.Name) and node.id == name


# ----------------------------------------------------------------------------- verify_directory

def verify_dir_tries(repo):
    fn = find_func(parse(repo, UTIL).body, "verify_directory", UTIL)
    loops = [n for n in ast.walk(fn) if isinstance(n, ast.While)]
    if len(loops) != 1:
        raise RegenError("util.verify_directory: expected exactly one while loop")
    loop = loops[0]
    t = loop.test
    if not (isinstance(t, ast.UnaryOp) and isinstance(t.op, ast.Not) and call_name(t.operand) == "os.path.exists"):
        raise RegenError("util.verify_directory: loop test is not `not os.path.exists(dir_)`")
    tries = [n for n in ast.walk(loop) if isinstance(n, ast.Try)]
    if len(tries) != 1 or len(tries[0].handlers) != 1:
        raise RegenError("util.verify_directory: expected one try/except in the loop")
    tr = tries[0]
    body_calls = [call_name(s.value) for s in tr.body if isinstance(s, ast.Expr)]
    incs = [s for s in tr.body if isinstance(s, ast.AugAssign) and isinstance(s.op, ast.Add)
            and is_name(s.target, "tries") and const(s.value, int, "tries increment") == 1]
    if body_calls != ["os.makedirs"] or len(incs) != 1 or tr.body.index(incs[0]) != 0:
        raise RegenError("util.verify_directory: try body is not `tries += 1; os.makedirs(...)`")
    h = tr.handlers[0]
    if len(h.body) != 1 or not isinstance(h.body[0], ast.If):
        raise RegenError("util.verify_directory: handler is not a single `if tries > N: raise`")
    cond = h.body[0]
    if not (len(cond.body) == 1 and isinstance(cond.body[0], ast.Raise) and cond.body[0].exc is None and not cond.orelse):
        raise RegenError("util.verify_directory: handler does not re-raise")
    c = cond.test
    if not (isinstance(c, ast.Compare) and is_name(c.left, "tries") and len(c.ops) == 1):
        raise RegenError("util.verify_directory: handler test is not a comparison on `tries`")
    n = const(c.comparators[0], int, "verify_directory bound")
    if isinstance(c.ops[0], ast.Gt):
        return n + 1          # raises at the first failure with tries > n, i.e. the (n+1)-th attempt
    if isinstance(c.ops[0], ast.GtE):
        return n
    raise RegenError("util.verify_directory: unsupported comparison in the handler")


# ----------------------------------------------------------------------------- _compile_from_file

def staleness(repo):
    cls = find_class(parse(repo, TEMPLATE), "Template", TEMPLATE)
    fn = find_func(cls.body, "_compile_from_file", TEMPLATE)
    src = ast.dump(fn)
    if "verify_directory" not in src:
        raise RegenError("_compile_from_file: util.verify_directory is no longer called")
    # the staleness test: `not os.path.exists(path) or os.stat(path)[ST_MTIME] <op> filemtime`
    stale = None
    for n in ast.walk(fn):
        if isinstance(n, ast.If) and isinstance(n.test, ast.BoolOp) and isinstance(n.test.op, ast.Or):
            vals = n.test.values
            if len(vals) == 2 and isinstance(vals[0], ast.UnaryOp) and isinstance(vals[0].op, ast.Not) \
                    and call_name(vals[0].operand) == "os.path.exists" and isinstance(vals[1], ast.Compare):
                stale = (True, vals[1], n)
        elif isinstance(n, ast.If) and isinstance(n.test, ast.Compare) and stale is None:
            l = n.test.left
            if isinstance(l, ast.Subscript) and call_name(l.value) == "os.stat":
                stale = (False, n.test, n)
    if stale is None:
        raise RegenError("_compile_from_file: staleness test not found")
    missing, cmp_, ifnode = stale
    l = cmp_.left
    if not (isinstance(l, ast.Subscript) and call_name(l.value) == "os.stat" and len(cmp_.ops) == 1
            and is_name(cmp_.comparators[0], "filemtime") and type(cmp_.ops[0]) in CMP):
        raise RegenError("_compile_from_file: staleness comparison is not `os.stat(path)[ST_MTIME] <op> filemtime`")
    if dotted(l.slice) != "stat.ST_MTIME":
        raise RegenError("_compile_from_file: the module's time is not ST_MTIME")
    if not is_name(l.value.args[0], "path"):
        raise RegenError("_compile_from_file: staleness test does not stat `path`")
    # filemtime = os.stat(filename)[stat.ST_MTIME]  (whole seconds)  |  os.stat(filename).st_mtime  (a float)
    src_whole = None
    for n in ast.walk(fn):
        if isinstance(n, ast.Assign) and len(n.targets) == 1 and is_name(n.targets[0], "filemtime"):
            v = n.value
            if call_name(v) == "int" and len(v.args) == 1:
                inner = v.args[0]
                if isinstance(inner, ast.Attribute) and inner.attr == "st_mtime" and call_name(inner.value) == "os.stat" \
                        and is_name(inner.value.args[0], "filename"):
                    src_whole = True
            elif isinstance(v, ast.Subscript) and call_name(v.value) == "os.stat" and is_name(v.value.args[0], "filename") \
                    and dotted(v.slice) == "stat.ST_MTIME":
                src_whole = True
            elif isinstance(v, ast.Attribute) and v.attr in ("st_mtime", "st_mtime_ns") and call_name(v.value) == "os.stat" \
                    and is_name(v.value.args[0], "filename"):
                src_whole = False
    if src_whole is None:
        raise RegenError("_compile_from_file: filemtime is not the mtime of os.stat(filename)")
    # helper methods of Template that (re)write the module file and hand back the module loaded from it:
    #   def _h(self, path, filename): …; _compile_module_file(…); return compat.load_module(self.module_id, path)
    helpers = set()
    for m in cls.body:
        if isinstance(m, ast.FunctionDef) and m.name != "_compile_from_file":
            calls = [call_name(c) for c in ast.walk(m) if isinstance(c, ast.Call)]
            rets = [r for r in ast.walk(m) if isinstance(r, ast.Return)]
            if "_compile_module_file" in calls and rets and all(call_name(r.value) == "compat.load_module" for r in rets):
                helpers.add("self." + m.name)

    def writes(node):
        return any(call_name(c) == "_compile_module_file" or call_name(c) in helpers for c in ast.walk(node))

    def module_rebound(node):
        """`module = compat.load_module(…)` or `module = self.<helper>(…)` happens in `node`"""
        for a in ast.walk(node):
            if isinstance(a, ast.Assign) and len(a.targets) == 1 and is_name(a.targets[0], "module") \
                    and (call_name(a.value) == "compat.load_module" or call_name(a.value) in helpers):
                return True
        return False

    if not writes(ifnode):
        raise RegenError("_compile_from_file: the stale branch does not (re)write the module file")
    # the re-check after loading: rewrite AND use the module loaded afterwards when
    #   module._magic_number != codegen.MAGIC_NUMBER [or module._template_filename != filename]
    recheck = False
    file_recheck = False
    file_norm = []

    def disjunct(t):
        if isinstance(t, ast.Compare) and len(t.ops) == 1 and isinstance(t.ops[0], ast.NotEq):
            names = {dotted(t.left), dotted(t.comparators[0])}
            if names == {"module._magic_number", "codegen.MAGIC_NUMBER"}:
                return "magic"
            if names == {"module._template_filename", "filename"}:
                file_norm.append(False)
                return "file"
            # os.path.normpath(module._template_filename) != os.path.normpath(filename)
            l, r = t.left, t.comparators[0]
            if call_name(l) == "os.path.normpath" and call_name(r) == "os.path.normpath" and len(l.args) == 1 and len(r.args) == 1 \
                    and {dotted(l.args[0]), dotted(r.args[0])} == {"module._template_filename", "filename"}:
                file_norm.append(True)
                return "file"
        return None

    for n in ast.walk(fn):
        if not isinstance(n, ast.If):
            continue
        if isinstance(n.test, ast.BoolOp) and isinstance(n.test.op, ast.Or):
            kinds = [disjunct(v) for v in n.test.values]
        else:
            kinds = [disjunct(n.test)]
        if not kinds or any(k is None for k in kinds) or len(set(kinds)) != len(kinds):
            continue
        if writes(n) and module_rebound(n):
            recheck = recheck or "magic" in kinds
            file_recheck = file_recheck or "file" in kinds
    return CMP[type(cmp_.ops[0])], missing, recheck, file_recheck, src_whole, bool(file_norm) and all(file_norm)


# ----------------------------------------------------------------------------- _compile_module_file

def writer(repo):
    fn = find_func(parse(repo, TEMPLATE).body, "_compile_module_file", TEMPLATE)
    params = [a.arg for a in fn.args.args]
    if params[-2:] != ["outputpath", "module_writer"]:
        raise RegenError("_compile_module_file: parameters changed: %s" % params)
    branch = [s for s in fn.body if isinstance(s, ast.If) and is_name(s.test, "module_writer")]
    if len(branch) != 1:
        raise RegenError("_compile_module_file: expected one `if module_writer: … else: …`")
    br = branch[0]
    # after the branch: nothing, or the removal of the cached bytecode of the file just replaced
    #   try: os.unlink(<…>.cache_from_source(outputpath))  except (…): pass
    def is_pyc_unlink(t):
        ok = isinstance(t, ast.Try) and len(t.body) == 1 and isinstance(t.body[0], ast.Expr) \
            and call_name(t.body[0].value) in ("os.unlink", "os.remove") and not t.finalbody and not t.orelse \
            and all(len(h.body) == 1 and isinstance(h.body[0], ast.Pass) for h in t.handlers)
        if ok:
            a = t.body[0].value.args[0]
            ok = isinstance(a, ast.Call) and (call_name(a) or "").endswith("cache_from_source") \
                and len(a.args) == 1 and is_name(a.args[0], "outputpath")
        return ok

    tail = fn.body[fn.body.index(br) + 1:]
    drops_bytecode = False           # after the built-in writer
    drops_bytecode_hook = False      # after a user-supplied module_writer
    if tail:
        if not (len(tail) == 1 and is_pyc_unlink(tail[0])):
            raise RegenError("_compile_module_file: statement after the module_writer branch not understood (line %d)"
                             % tail[0].lineno)
        drops_bytecode = drops_bytecode_hook = True
    # the same removal at the end of one branch only
    else_body = list(br.orelse)
    if else_body and is_pyc_unlink(else_body[-1]):
        else_body.pop()
        drops_bytecode = True
    hook_body = list(br.body)
    if len(hook_body) == 2 and is_pyc_unlink(hook_body[-1]):
        hook_body.pop()
        drops_bytecode_hook = True
    hook_ok = False
    if len(hook_body) == 1 and isinstance(hook_body[0], ast.Expr) and call_name(hook_body[0].value) == "module_writer":
        a = hook_body[0].value.args
        hook_ok = len(a) == 2 and is_name(a[0], "source") and is_name(a[1], "outputpath") and not hook_body[0].value.keywords
    ops = []
    loops = [False]
    close_on_raise = [False]
    tmp_in_dir = [True]
    fdname = [None]
    tmpname = [None]
    fileobjs = {}          # name of a file object -> 'tmp' | 'dest'
    pending = {}           # file object -> a buffered write whose bytes are in the file for sure only after flush/close

    def target_of_open(call):
        """open(x, 'wb') / os.fdopen(fd, 'wb'): which file?"""
        nm = call_name(call)
        if nm == "open" and call.args and is_name(call.args[0], "outputpath"):
            return "dest"
        if nm == "open" and call.args and tmpname[0] and is_name(call.args[0], tmpname[0]):
            return "tmp"
        if nm == "os.fdopen" and call.args and fdname[0] and is_name(call.args[0], fdname[0]):
            return "tmp"
        return None

    def stmt(s):
        if isinstance(s, ast.Assign) and call_name(s.value) == "tempfile.mkstemp":
            t = s.targets[0]
            if not (isinstance(t, ast.Tuple) and len(t.elts) == 2 and all(isinstance(e, ast.Name) for e in t.elts)):
                raise RegenError("_compile_module_file: mkstemp result is not unpacked into (fd, name)")
            fdname[0], tmpname[0] = t.elts[0].id, t.elts[1].id
            kw = {k.arg: k.value for k in s.value.keywords}
            d = kw.get("dir")
            tmp_in_dir[0] = d is not None and call_name(d) == "os.path.dirname" and is_name(d.args[0], "outputpath")
            ops.append("mkstemp")
            return
        if isinstance(s, ast.Assign) and isinstance(s.value, ast.Call) and target_of_open(s.value) and \
                len(s.targets) == 1 and isinstance(s.targets[0], ast.Name):
            which = target_of_open(s.value)
            fileobjs[s.targets[0].id] = which
            if which == "dest":
                ops.append("openDest")
            return
        if isinstance(s, ast.With) and len(s.items) == 1 and isinstance(s.items[0].context_expr, ast.Call) \
                and target_of_open(s.items[0].context_expr) and isinstance(s.items[0].optional_vars, ast.Name):
            which = target_of_open(s.items[0].context_expr)
            fileobjs[s.items[0].optional_vars.id] = which
            if which == "dest":
                ops.append("openDest")
            for b in s.body:
                stmt(b)
            if pending.pop(s.items[0].optional_vars.id, False):
                ops.append("write")           # the buffer is flushed by the close at the end of the block
            ops.append("close")
            close_on_raise[0] = True          # the context manager closes the file while an exception unwinds
            return
        if isinstance(s, ast.Expr) and isinstance(s.value, ast.Call):
            nm = call_name(s.value)
            c = s.value
            if nm == "os.write" and fdname[0] and is_name(c.args[0], fdname[0]) and is_name(c.args[1], "source"):
                ops.append("write")          # return value dropped: a short write goes unnoticed
                return
            if nm == "os.close" and fdname[0] and is_name(c.args[0], fdname[0]):
                ops.append("close")
                return
            if nm == "os.fsync":
                ops.append("fsync")
                return
            if nm in ("shutil.move", "os.rename", "os.replace") and tmpname[0] and is_name(c.args[0], tmpname[0]) \
                    and is_name(c.args[1], "outputpath"):
                ops.append("rename")
                return
            if nm and "." in nm and nm.split(".")[0] in fileobjs and nm.split(".")[1] in ("write", "close", "flush"):
                what = nm.split(".")[1]
                fobj = nm.split(".")[0]
                if what == "write":
                    if not is_name(c.args[0], "source"):
                        raise RegenError("_compile_module_file: file write of something other than `source`")
                    pending[fobj] = True     # a buffered writer: the bytes may stay in user space until flush / close
                    loops[0] = True          # BufferedWriter: writes everything or raises
                elif what == "flush":
                    if pending.pop(fobj, False):
                        ops.append("write")
                elif what == "close":
                    if pending.pop(fobj, False):
                        ops.append("write")
                    ops.append("close")
                return
            # open(outputpath, 'wb').write(source)
            if isinstance(c.func, ast.Attribute) and c.func.attr == "write" and isinstance(c.func.value, ast.Call) \
                    and target_of_open(c.func.value) == "dest":
                ops.extend(["openDest", "write", "close"])
                loops[0] = True
                return
        if isinstance(s, ast.While):
            # `while …: n = os.write(fd, …)` : written until complete
            ws = [c for c in ast.walk(s) if call_name(c) == "os.write"]
            assigned = [a for a in ast.walk(s) if isinstance(a, (ast.Assign, ast.AugAssign)) and call_name(a.value) == "os.write"]
            if ws and len(ws) == len(assigned):
                ops.append("write")
                loops[0] = True
                return
        if isinstance(s, ast.Assign) and len(s.targets) == 1 and isinstance(s.targets[0], ast.Name) \
                and not any(isinstance(c, ast.Call) and call_name(c) not in ("memoryview", "len") for c in ast.walk(s.value)):
            return                           # pure local bookkeeping (e.g. `view = memoryview(source)`)
        raise RegenError("_compile_module_file: statement not understood at line %d: %s"
                         % (getattr(s, "lineno", 0), ast.dump(s)[:120]))

    for s in else_body:
        stmt(s)
    if pending:
        raise RegenError("_compile_module_file: a buffered write is never flushed or closed")
    if not ops:
        raise RegenError("_compile_module_file: no file-system primitive found in the default branch")
    return ops, loops[0], tmp_in_dir[0], hook_ok, close_on_raise[0], drops_bytecode, drops_bytecode_hook


def lean_bool(b):
    return "true" if b else "false"


@group("ModFile")
def gen(repo):
    magic = const(module_assign(parse(repo, CODEGEN), "MAGIC_NUMBER", CODEGEN), int, "codegen.MAGIC_NUMBER")
    # the number must also be what is written into the module and compared after load
    cg = open(repo + "/" + CODEGEN, encoding="utf-8").read()
    if '"_magic_number = %r" % MAGIC_NUMBER' not in cg:
        raise RegenError("codegen: `_magic_number = %r` % MAGIC_NUMBER is no longer emitted")
    # the name recorded in the module is the name the Template was given: _CompileContext stores it unchanged
    cgt = parse(repo, CODEGEN)
    init = find_func(find_class(cgt, "_CompileContext", CODEGEN).body, "__init__", CODEGEN)
    verbatim = None
    for n in ast.walk(init):
        if isinstance(n, ast.Assign) and len(n.targets) == 1 and dotted(n.targets[0]) == "self.filename":
            verbatim = is_name(n.value, "filename")
    if verbatim is None:
        raise RegenError("codegen._CompileContext.__init__: no assignment to self.filename")
    tries = verify_dir_tries(repo)
    cmp_, missing, recheck, file_recheck, whole, file_norm = staleness(repo)
    if '"_template_filename = %a" % self.compiler.filename' not in cg and '"_template_filename = %r" % self.compiler.filename' not in cg:
        raise RegenError("codegen: `_template_filename` is no longer emitted from compiler.filename")
    ops, loops, tmp_in_dir, hook_ok, close_on_raise, drops_bytecode, drops_bytecode_hook = writer(repo)
    out = [HEADER % "mako/codegen.py, mako/util.py, mako/template.py (tools/regen_modfile.py)"]
    out.append("namespace MakoModel.Generated.ModFile\n")
    out.append("/-- file-system primitives a module writer can be made of -/")
    out.append("inductive WOp | mkstemp | openDest | write | fsync | close | rename\n  deriving DecidableEq, Repr\n")
    out.append("/-- comparison operators -/")
    out.append("inductive Cmp | lt | le | gt | ge | eq | ne\n  deriving DecidableEq, Repr\n")
    out.append("/-- `codegen.MAGIC_NUMBER` -/\ndef magicNumber : Nat := %d\n" % magic)
    out.append("/-- `util.verify_directory`: the os.makedirs attempt whose failure is re-raised -/\n"
               "def verifyDirMaxTries : Nat := %d\n" % tries)
    out.append("/-- `os.stat(path)[ST_MTIME] <op> filemtime` in `Template._compile_from_file` -/\n"
               "def staleCmp : Cmp := .%s\n" % cmp_)
    out.append("/-- `not os.path.exists(path) or …` is part of the staleness test -/\n"
               "def missingCheck : Bool := %s\n" % lean_bool(missing))
    out.append("/-- the `_magic_number != MAGIC_NUMBER` re-check (rewrite + reload) after loading is present -/\n"
               "def magicRecheck : Bool := %s\n" % lean_bool(recheck))
    out.append("/-- the re-check also rewrites when `module._template_filename != filename` (generated from another file) -/\n"
               "def fileRecheck : Bool := %s\n" % lean_bool(file_recheck))
    out.append("/-- … and that comparison is between the `os.path.normpath` of both names -/\n"
               "def fileCmpNormalised : Bool := %s\n" % lean_bool(file_norm))
    out.append("/-- `_CompileContext` keeps the template file name it is given unchanged; it is what `_template_filename` records -/\n"
               "def recordsFilenameVerbatim : Bool := %s\n" % lean_bool(verbatim))
    out.append("/-- the default branch of `_compile_module_file`, primitive by primitive -/\n"
               "def writerOps : List WOp := [%s]\n" % ", ".join("." + o for o in ops))
    out.append("/-- the write is repeated until every byte is written (os.write's result is looked at) -/\n"
               "def writeLoops : Bool := %s\n" % lean_bool(loops))
    out.append("/-- a write that raises is followed by the close of the file (a `with` block) before the exception leaves -/\n"
               "def closeOnRaise : Bool := %s\n" % lean_bool(close_on_raise))
    out.append("/-- `mkstemp(dir=os.path.dirname(outputpath))` -/\n"
               "def tmpInTargetDir : Bool := %s\n" % lean_bool(tmp_in_dir))
    out.append("/-- after a (re)write the cached bytecode of the module path is removed -/\n"
               "def dropsBytecode : Bool := %s\n" % lean_bool(drops_bytecode))
    out.append("/-- … and also after a user-supplied `module_writer` wrote it -/\n"
               "def dropsBytecodeHook : Bool := %s\n" % lean_bool(drops_bytecode_hook))
    out.append("/-- both sides of the staleness comparison are whole seconds (`os.stat(…)[stat.ST_MTIME]`) -/\n"
               "def mtimesWholeSeconds : Bool := %s\n" % lean_bool(whole))
    out.append("/-- the hook is called as `module_writer(source, outputpath)` -/\n"
               "def hookArgsOk : Bool := %s\n" % lean_bool(hook_ok))
    out.append("end MakoModel.Generated.ModFile")
    return "\n".join(out) + "\n"
