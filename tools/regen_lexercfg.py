"""Regen group "LexerCfg": what the lexer model is parameterised by  ->  Generated/LexerCfg.lean

From the source text of /repo/mako/lexer.py and /repo/mako/parsetree.py (Python `ast`, nothing imported):
  * `matcherOrder`  - the `self.match_*()` calls of the `while True:` loop of `Lexer.parse`, in order;
  * `emitSkipped`   - does `match_text` emit the character that `match_reg`'s empty-match `+1` rule stepped
                      over (shape: a second `self.append_node(...)` call in `match_text`)?  False on the tree as
                      found (finding F1); True after the proposed `fix:` patch;
  * `textTagStepBack` - does `match_tag_start` put `match_position` back after an *empty* `<%text>` body
                      (shape: an assignment to `self.match_position` inside `match_tag_start`)?
  * `textlengthIsLexedLength` - in `Lexer.parse`, `self.textlength = len(self.text)` is a top-level statement that
                      comes after the preprocessor loop (the last statement that assigns `self.text`) and before
                      the `while` loop: the loop's `match_position > textlength` test and `match_reg`'s column
                      arithmetic then refer to the text that is actually lexed;
  * `pyparserWrapsEveryException` - in mako/pyparser.py `parse`, the `try` around `_ast_util.parse(...)` has a
                      handler that is bare or catches `Exception` / `BaseException` and raises
                      `exceptions.SyntaxException`: whatever CPython's parser raises for the Python inside a
                      directive (SyntaxError, ValueError, UnicodeEncodeError, MemoryError, RecursionError ...)
                      leaves the lexer as a Mako exception;
  * `visitorsGuarded` - every identifier visitor constructed in mako/ast.py (`pyparser.FindIdentifiers`, `FindTuple`,
                      `ParseFunc` - three entry points) is run through `pyparser.visit(...)`, never by a direct
                      `.visit(` call, and `pyparser.visit` turns `RecursionError` (or a wider class) into
                      `exceptions.SyntaxException`: Python that parses but is nested too deeply for the recursive
                      visitors leaves the lexer as a Mako exception;
  * `primaryKeywords` / `ternaryTable` - `ControlLine.is_primary`'s list and `ControlLine.is_ternary`'s dict;
  * `regexFingerprint` - sha1 over all string literals passed to `self.match(...)`/`re.match`/`re.findall`/
                      `re.compile` in lexer.py (never changes a verdict; the harness only uses it to decide how
                      much per-matcher enumeration the quick tier runs).
The two Booleans select between hand-written variants of the model; whether the selected variant is what the code
does is decided by the correspondence streams, not by this file.
"""
from __future__ import annotations

import ast
import hashlib

from regen import group, RegenError, parse, find_class, find_func, lean_str, lean_string, HEADER

LEX = "mako/lexer.py"
PT = "mako/parsetree.py"


def _is_self_call(node, prefix):
    return (isinstance(node, ast.Call) and isinstance(node.func, ast.Attribute)
            and isinstance(node.func.value, ast.Name) and node.func.value.id == "self"
            and node.func.attr.startswith(prefix))


def matcher_order(fn):
    loop = None
    for n in ast.walk(fn):
        if isinstance(n, ast.While):
            loop = n
            break
    if loop is None:
        raise RegenError("%s: Lexer.parse has no while loop" % LEX)
    order = []
    for st in loop.body:
        if isinstance(st, ast.If) and _is_self_call(st.test, "match_"):
            order.append(st.test.func.attr)
    if not order:
        raise RegenError("%s: no `if self.match_*():` statements in the loop of Lexer.parse" % LEX)
    return order


def textlength_order(fn):
    """True iff `self.textlength = len(self.text)` is assigned at the top level of `parse`, after every top-level
    statement that assigns `self.text` and before the while loop"""
    def assigns(st, attr):
        for n in ast.walk(st):
            if isinstance(n, (ast.Assign, ast.AugAssign, ast.AnnAssign)):
                targets = n.targets if isinstance(n, ast.Assign) else [n.target]
                for tg in targets:
                    for x in ast.walk(tg):
                        if (isinstance(x, ast.Attribute) and isinstance(x.value, ast.Name) and x.value.id == "self"
                                and x.attr == attr):
                            return True
        return False
    i_len = i_text = i_while = None
    for i, st in enumerate(fn.body):
        if isinstance(st, ast.While) and i_while is None:
            i_while = i
        if i_while is None and assigns(st, "text"):
            i_text = i
        if (isinstance(st, ast.Assign) and len(st.targets) == 1 and assigns(st, "textlength")
                and ast.dump(st.value) == ast.dump(ast.parse("len(self.text)", mode="eval").body)):
            i_len = i
    if i_while is None:
        raise RegenError("%s: Lexer.parse has no top-level while loop" % LEX)
    if i_len is None:
        return False
    return (i_text is None or i_text < i_len) and i_len < i_while


def pyparser_wraps_everything(repo):
    tree = parse(repo, "mako/pyparser.py")
    fn = find_func(tree.body, "parse", "mako/pyparser.py")
    for n in ast.walk(fn):
        if isinstance(n, ast.Try):
            calls = [c for st in n.body for c in ast.walk(st) if isinstance(c, ast.Call)
                     and isinstance(c.func, ast.Attribute) and c.func.attr == "parse"]
            if not calls:
                continue
            for h in n.handlers:
                wide = h.type is None or (isinstance(h.type, ast.Name) and h.type.id in ("Exception", "BaseException"))
                raises = any(isinstance(r, ast.Raise) and r.exc is not None and "SyntaxException" in ast.dump(r.exc)
                             for st in h.body for r in ast.walk(st))
                if wide and raises:
                    return True
            return False
    raise RegenError("mako/pyparser.py: parse() has no try statement around the parser call")


def visitors_guarded(repo):
    atree = parse(repo, "mako/ast.py")
    built = guarded = direct = 0
    for n in ast.walk(atree):
        if isinstance(n, ast.Call) and isinstance(n.func, ast.Attribute) and isinstance(n.func.value, ast.Name):
            owner, attr = n.func.value.id, n.func.attr
            if owner == "pyparser" and attr in ("FindIdentifiers", "FindTuple", "ParseFunc"):
                built += 1
            elif owner == "pyparser" and attr == "visit":
                guarded += 1
            elif attr == "visit":
                direct += 1
    if built == 0:
        raise RegenError("mako/ast.py: no identifier visitor is constructed")
    ptree = parse(repo, "mako/pyparser.py")
    try:
        fn = find_func(ptree.body, "visit", "mako/pyparser.py")
    except RegenError:
        return False
    wraps = False
    for n in ast.walk(fn):
        if isinstance(n, ast.Try):
            for h in n.handlers:
                names = []
                if h.type is None:
                    names = ["BaseException"]
                elif isinstance(h.type, ast.Name):
                    names = [h.type.id]
                elif isinstance(h.type, ast.Tuple):
                    names = [e.id for e in h.type.elts if isinstance(e, ast.Name)]
                wide = any(x in ("RecursionError", "RuntimeError", "Exception", "BaseException") for x in names)
                raises = any(isinstance(r, ast.Raise) and r.exc is not None and "SyntaxException" in ast.dump(r.exc)
                             for st in h.body for r in ast.walk(st))
                wraps = wraps or (wide and raises)
    return wraps and direct == 0 and guarded >= built and built >= 3


def string_consts(node):
    """literal string value of an expression made of constants, implicit concatenation and `%`-formatting"""
    out = []
    for n in ast.walk(node):
        if isinstance(n, ast.Constant) and isinstance(n.value, str):
            out.append(n.value)
    return out


def regex_literals(cls):
    lits = []
    for n in ast.walk(cls):
        if isinstance(n, ast.Call) and isinstance(n.func, ast.Attribute) and n.func.attr in (
                "match", "findall", "compile", "search", "sub", "split") and n.args:
            owner = n.func.value
            if isinstance(owner, ast.Name) and owner.id in ("self", "re"):
                lits.append((n.func.attr, tuple(string_consts(n.args[0])),
                             ast.dump(n.args[1]) if len(n.args) > 1 and owner.id == "self" else ""))
    for n in ast.walk(cls):
        if isinstance(n, ast.Assign) and any(isinstance(t, ast.Name) and t.id == "reg" for t in n.targets):
            lits.append(("reg", tuple(string_consts(n.value)), ""))
    return lits


@group("LexerCfg")
def gen(repo):
    tree = parse(repo, LEX)
    cls = find_class(tree, "Lexer", LEX)
    order = matcher_order(find_func(cls.body, "parse", LEX))
    tl_ok = textlength_order(find_func(cls.body, "parse", LEX))
    wraps = pyparser_wraps_everything(repo)
    guarded = visitors_guarded(repo)
    mt = find_func(cls.body, "match_text", LEX)
    n_append = sum(1 for n in ast.walk(mt) if _is_self_call(n, "append_node"))
    if n_append == 0:
        raise RegenError("%s: match_text does not call self.append_node" % LEX)
    emit_skipped = n_append >= 2
    ts = find_func(cls.body, "match_tag_start", LEX)
    step_back = False
    for n in ast.walk(ts):
        if isinstance(n, (ast.Assign, ast.AugAssign)):
            targets = n.targets if isinstance(n, ast.Assign) else [n.target]
            for t in targets:
                if isinstance(t, ast.Attribute) and t.attr == "match_position":
                    step_back = True
    fp = hashlib.sha1(repr(regex_literals(cls)).encode()).hexdigest()

    ptree = parse(repo, PT)
    cl = find_class(ptree, "ControlLine", PT)
    init = find_func(cl.body, "__init__", PT)
    primary = None
    for n in ast.walk(init):
        if (isinstance(n, ast.Assign) and isinstance(n.targets[0], ast.Attribute)
                and n.targets[0].attr == "is_primary"):
            v = n.value
            if (isinstance(v, ast.Compare) and len(v.ops) == 1 and isinstance(v.ops[0], ast.In)
                    and isinstance(v.comparators[0], (ast.List, ast.Tuple, ast.Set))):
                primary = []
                for e in v.comparators[0].elts:
                    if not (isinstance(e, ast.Constant) and isinstance(e.value, str)):
                        raise RegenError("%s: is_primary list holds a non-literal" % PT)
                    primary.append(e.value)
    if primary is None:
        raise RegenError("%s: ControlLine.is_primary is not `keyword in [literals]`" % PT)
    tern_fn = find_func(cl.body, "is_ternary", PT)
    table = None
    for n in ast.walk(tern_fn):
        if isinstance(n, ast.Assign) and isinstance(n.value, ast.Dict):
            table = []
            for k, v in zip(n.value.keys, n.value.values):
                if not (isinstance(k, ast.Constant) and isinstance(k.value, str)
                        and isinstance(v, (ast.Set, ast.List, ast.Tuple))):
                    raise RegenError("%s: is_ternary table is not {str: {str,…}}" % PT)
                vals = []
                for e in v.elts:
                    if not (isinstance(e, ast.Constant) and isinstance(e.value, str)):
                        raise RegenError("%s: is_ternary table holds a non-literal" % PT)
                    vals.append(e.value)
                table.append((k.value, sorted(vals)))
    if table is None:
        raise RegenError("%s: ControlLine.is_ternary has no dict literal" % PT)
    # Python dict literal: a later duplicate key wins
    seen = {}
    for k, v in table:
        seen[k] = v
    table = sorted(seen.items())

    out = [HEADER % ("%s, %s, mako/pyparser.py, mako/ast.py" % (LEX, PT)), "namespace MakoModel.Generated.LexerCfg", "",
           "/-- the `if self.match_*():` cascade of `Lexer.parse`, in source order -/",
           "def matcherOrder : List String := [%s]" % ", ".join(lean_string(m) for m in order), "",
           "/-- `match_text` emits the character stepped over by the empty-match `+1` rule (fix for F1 present) -/",
           "def emitSkipped : Bool := %s" % ("true" if emit_skipped else "false"), "",
           "/-- `match_tag_start` steps back after an empty `<%text>` body (fix present) -/",
           "def textTagStepBack : Bool := %s" % ("true" if step_back else "false"), "",
           "/-- `parse` sets `textlength = len(self.text)` after the preprocessor loop and before the main loop -/",
           "def textlengthIsLexedLength : Bool := %s" % ("true" if tl_ok else "false"), "",
           "/-- `pyparser.parse` turns every exception of CPython's parser into a Mako `SyntaxException` -/",
           "def pyparserWrapsEveryException : Bool := %s" % ("true" if wraps else "false"), "",
           "/-- the identifier visitors of mako/ast.py run through `pyparser.visit`, which wraps `RecursionError` -/",
           "def visitorsGuarded : Bool := %s" % ("true" if guarded else "false"), "",
           "/-- `ControlLine.is_primary` -/",
           "def primaryKeywords : List (List Char) := [%s]" % ", ".join(lean_str(k) for k in primary), "",
           "/-- `ControlLine.is_ternary`: primary keyword ↦ its legal ternary keywords -/",
           "def ternaryTable : List (List Char × List (List Char)) := [%s]" % ", ".join(
               "(%s, [%s])" % (lean_str(k), ", ".join(lean_str(x) for x in v)) for k, v in table), "",
           "/-- sha1 over the regex literals of lexer.py (effort selection only, never a verdict) -/",
           "def regexFingerprint : String := %s" % lean_string(fp), "",
           "end MakoModel.Generated.LexerCfg", ""]
    return "\n".join(out)
