"""Regen group "RuntimeFacts" (C13): how the runtime helpers of mako/runtime.py clean up and which exceptions their
error paths catch *now*, as Lean constants.  The Target model gives `capture`, decorated/`supports_caller` frames
and the error paths a cleanup that does not look at the exception (finally semantics) and handlers as listed here;
Props/C13.lean has the `decide` obligations.

* `captureCleanup`         - "finally" when `capture()` pops its buffer in the `finally` of the `try` around the call
                             (and that `try` has no `except` clause); otherwise "except" / "none"
* `supportsCallerCleanup`  - the same for `supports_caller`'s `_pop_frame()`
* `includeHandlerCatches`  - classes of the `except` clauses around the callable in `_include_file` ("" = bare)
* `execTemplateCatches`    - … in `_exec_template`
* `includeReraisesBare`    - the include handler's false result ends in a bare `raise`
* `renderErrorInPlace`     - every assignment to `context._buffer_stack` in `_render_error` is a slice assignment
                             (`context._buffer_stack[:] = …`), never a rebinding of the attribute
* `reraisesFromExcInfo`    - `_render_error` re-raises `value.with_traceback(tb)` taken from `sys.exc_info()`
"""
from __future__ import annotations

import ast

from regen import group, RegenError, parse, find_func, HEADER, lean_string

REL = "mako/runtime.py"


def _src(n):
    return ast.unparse(n)


def _cleanup_kind(fn, pop_call, rel_name):
    """where is `pop_call` (e.g. 'context._pop_buffer') executed relative to the try around the user callable?"""
    tries = [n for n in ast.walk(fn) if isinstance(n, ast.Try)]
    if not tries:
        raise RegenError("%s: %s has no try statement (shape not understood)" % (REL, rel_name))
    t = tries[0]
    in_final = any(pop_call in _src(x) for x in t.finalbody)
    if in_final and not t.handlers:
        return "finally"
    if any(pop_call in _src(x) for h in t.handlers for x in h.body):
        return "except"
    return "none"


def _handler_classes(fn, rel_name):
    out = []
    found = False
    for n in ast.walk(fn):
        if isinstance(n, ast.Try) and n.handlers:
            found = True
            for h in n.handlers:
                out.append("" if h.type is None else _src(h.type))
            break
    if not found:
        raise RegenError("%s: %s has no except clause (shape not understood)" % (REL, rel_name))
    return out


@group("RuntimeFacts")
def gen(repo) -> str:
    tree = parse(repo, REL)
    cap = find_func(tree.body, "capture", REL)
    sup = find_func(tree.body, "supports_caller", REL)
    inner = [n for n in sup.body if isinstance(n, ast.FunctionDef)]
    if not inner:
        raise RegenError("%s: supports_caller defines no wrapper" % REL)
    inc = find_func(tree.body, "_include_file", REL)
    ext = find_func(tree.body, "_exec_template", REL)
    rer = find_func(tree.body, "_render_error", REL)
    inc_bare = False
    for n in ast.walk(inc):
        if isinstance(n, ast.ExceptHandler):
            inc_bare = any(isinstance(x, ast.Raise) and x.exc is None for x in ast.walk(n))
    assigns = []
    for n in ast.walk(rer):
        if isinstance(n, ast.Assign):
            for t in n.targets:
                if "_buffer_stack" in _src(t):
                    assigns.append(isinstance(t, ast.Subscript) and isinstance(t.slice, ast.Slice))
    if not assigns:
        raise RegenError("%s: _render_error does not assign to _buffer_stack (shape not understood)" % REL)
    from_exc_info = any(isinstance(n, ast.Raise) and n.exc is not None and "with_traceback" in _src(n.exc)
                        for n in ast.walk(rer)) and "sys.exc_info()" in _src(rer)
    b = lambda x: "true" if x else "false"       # noqa: E731
    out = [HEADER % REL, "\nnamespace MakoModel.Generated.RuntimeFacts\n\n"]
    out.append("def captureCleanup : String := %s\n" % lean_string(_cleanup_kind(cap, "context._pop_buffer", "capture")))
    out.append("def supportsCallerCleanup : String := %s\n"
               % lean_string(_cleanup_kind(inner[0], "_pop_frame", "supports_caller")))
    out.append("def includeHandlerCatches : List String := [%s]\n"
               % ", ".join(lean_string(x) for x in _handler_classes(inc, "_include_file")))
    out.append("def execTemplateCatches : List String := [%s]\n"
               % ", ".join(lean_string(x) for x in _handler_classes(ext, "_exec_template")))
    out.append("def includeReraisesBare : Bool := %s\n" % b(inc_bare))
    out.append("def renderErrorInPlace : Bool := %s\n" % b(all(assigns)))
    out.append("def reraisesFromExcInfo : Bool := %s\n" % b(from_exc_info))
    out.append("\nend MakoModel.Generated.RuntimeFacts\n")
    return "".join(out)
