"""Regen group "ErrPos": which exceptions the reload path of the lookup converts.

`TemplateLookup._check` stats the file of a template it already holds and, when the file is newer, pops the entry and
calls `_load` (which constructs `Template(...)`, i.e. compiles).  Its `try` converts *some* exceptions into
`TemplateLookupException("Can't locate template for uri …")`.  C11 needs that a compile error raised during such a
reload reaches the caller unchanged; that holds iff none of the handler types can catch `SyntaxException` /
`CompileException` - both derive `MakoException(Exception)`, so the handlers must not name `Exception`,
`BaseException`, `MakoException`, the two classes themselves, nor be bare.

Emitted: the handler type names of every `except` clause of `_check` whose body raises (a bare clause is
"BaseException"); whether the handler(s) directly around `Template(...)` in `_load` re-raise (a bare `raise` as the last
statement).  `_load` without such a handler is a RegenError (never a vacuous `true`).
"""
from __future__ import annotations

import ast

from regen import group, RegenError, parse, find_class, find_func, HEADER, lean_string

REL = "mako/lookup.py"


def _names(t):
    if t is None:
        return ["BaseException"]
    if isinstance(t, ast.Tuple):
        out = []
        for e in t.elts:
            out += _names(e)
        return out
    if isinstance(t, ast.Name):
        return [t.id]
    if isinstance(t, ast.Attribute):
        return [t.attr]
    raise RegenError("%s: _check: handler type not understood: %s" % (REL, ast.dump(t)[:80]))


SITE_FILES = ["mako/lexer.py", "mako/parsetree.py", "mako/codegen.py", "mako/pyparser.py", "mako/ast.py"]
EXC_NAMES = ("SyntaxException", "CompileException")


def _pos_source(call, fn):
    """where the coordinates of the raised exception come from"""
    params = set()
    if fn is not None:
        a = fn.args
        params = {x.arg for x in a.posonlyargs + a.args + a.kwonlyargs}
        if a.vararg:
            params.add(a.vararg.arg)
        if a.kwarg:
            params.add(a.kwarg.arg)
    self_name = fn.args.args[0].arg if fn is not None and fn.args.args else None

    def owner(node):
        # the Name at the root of an attribute / subscript chain
        while isinstance(node, (ast.Attribute, ast.Subscript)):
            node = node.value
        return node.id if isinstance(node, ast.Name) else None

    stars = [k.value for k in call.keywords if k.arg is None]
    if stars:
        v = stars[0]
        if isinstance(v, ast.Dict):
            inner = [x for k_, x in zip(v.keys, v.values) if k_ is None]
            o = owner(inner[0]) if inner else None
            return "self+override" if o in ("self", self_name) and self_name in ("self",) else "override:%s" % o
        if isinstance(v, ast.Call):
            return "adjusted"
        o = owner(v)
        if o == "self":
            return "self"
        if o in params:
            return "param"
        return "outer:%s" % o
    named = {k.arg: k.value for k in call.keywords}
    if "lineno" in named:
        o = owner(named["lineno"])
        return "param" if o in params and o != "self" else ("self" if o == "self" else "outer:%s" % o)
    if len(call.args) >= 4:
        return "explicit"
    raise RegenError("raise site at line %d: coordinates not understood" % call.lineno)


def raise_sites(repo):
    sites = []
    for rel in SITE_FILES:
        tree = parse(repo, rel)

        def walk(node, stack):
            for ch in ast.iter_child_nodes(node):
                st = stack + [ch] if isinstance(ch, (ast.FunctionDef, ast.AsyncFunctionDef, ast.ClassDef)) else stack
                if isinstance(ch, ast.Raise) and isinstance(ch.exc, ast.Call):
                    f = ch.exc.func
                    name = f.attr if isinstance(f, ast.Attribute) else getattr(f, "id", None)
                    if name in EXC_NAMES:
                        a0 = ch.exc.args[0] if ch.exc.args else None
                        consts = [n.value for n in ast.walk(a0) if isinstance(n, ast.Constant) and isinstance(n.value, str)] \
                            if a0 is not None else []
                        fns = [s for s in st if isinstance(s, (ast.FunctionDef, ast.AsyncFunctionDef))]
                        sites.append((rel, ".".join(s.name for s in st), (consts or [""])[0][:32],
                                      _pos_source(ch.exc, fns[-1] if fns else None)))
                walk(ch, st)
        walk(tree, [])
    if not sites:
        raise RegenError("no raise site found")
    return sites


@group("ErrPos")
def gen(repo) -> str:
    tree = parse(repo, REL)
    cls = find_class(tree, "TemplateLookup", REL)
    chk = find_func(cls.body, "_check", REL)
    converting = []
    ntry = 0
    for n in ast.walk(chk):
        if isinstance(n, ast.Try):
            ntry += 1
            for h in n.handlers:
                raises_other = any(isinstance(x, ast.Raise) and x.exc is not None for x in ast.walk(h))
                if raises_other:
                    converting += _names(h.type)
    if ntry == 0:
        raise RegenError("%s: _check has no try statement" % REL)
    load = find_func(cls.body, "_load", REL)
    # the handlers around the `Template(...)` construction
    reraises = True
    found = False
    for n in ast.walk(load):
        if isinstance(n, ast.Try) and n.handlers:
            constructs = any(isinstance(c, ast.Call) and getattr(c.func, "id", getattr(c.func, "attr", None)) == "Template"
                             for b in n.body for c in ast.walk(b))
            inner_try = any(isinstance(c, ast.Try) and c.handlers for b in n.body for c in ast.walk(b))
            if constructs and not inner_try:
                found = True
                for h in n.handlers:
                    last = h.body[-1] if h.body else None
                    if not (isinstance(last, ast.Raise) and last.exc is None):
                        reraises = False
    if not found:
        # no `try: … Template(...) … except: …; raise` any more: the shape the flag speaks about is gone, and
        # "every handler re-raises" would be vacuous - a broken tie, to be looked at, rather than a silent `true`
        raise RegenError("%s: _load has no except clause directly around the Template(...) construction "
                         "(shape not understood: cannot tell what happens to a compile error)" % REL)
    sites = raise_sites(repo)
    out = [HEADER % (REL + ", " + ", ".join(SITE_FILES)), "\nnamespace MakoModel.Generated.ErrPos\n\n"]
    out.append("/-- every `raise exceptions.SyntaxException(...)` / `CompileException(...)` of " + ", ".join(SITE_FILES) + ":\n"
               "    (file, enclosing function, first 32 characters of the message, where its coordinates come from).\n"
               "    Coordinates: `self` = `self.exception_kwargs` / attributes of `self`; `param` = the exception_kwargs of a\n"
               "    parameter of the function the raise is written in (the node being constructed / visited);\n"
               "    `self+override`, `adjusted`, `explicit` = as named; `outer:<name>` = the exception_kwargs of a variable of an\n"
               "    ENCLOSING function (some other node than the one the function is looking at). -/\n")
    out.append("def raiseSites : List (String × String × String × String) := [\n")
    out.append(",\n".join("  (%s, %s, %s, %s)" % tuple(lean_string(x) for x in s) for s in sites))
    out.append("]\n\n")
    out.append("/-- exception classes the `except` clauses of `TemplateLookup._check` convert into\n"
               "    `TemplateLookupException` (a bare clause is listed as `BaseException`) -/\n")
    out.append("def checkConverts : List String := [%s]\n\n" % ", ".join(lean_string(x) for x in converting))
    out.append("/-- every `except` clause around the `Template(...)` construction of `TemplateLookup._load` ends with a bare `raise` -/\n")
    out.append("def loadReraises : Bool := %s\n\n" % ("true" if reraises else "false"))
    out.append("end MakoModel.Generated.ErrPos\n")
    return "".join(out)
