"""Regen group "ErrPos": which exceptions the reload path of the lookup converts.

`TemplateLookup._check` stats the file of a template it already holds and, when the file is newer, pops the entry and
calls `_load` (which constructs `Template(...)`, i.e. compiles).  Its `try` converts *some* exceptions into
`TemplateLookupException("Can't locate template for uri …")`.  C11 needs that a compile error raised during such a
reload reaches the caller unchanged; that holds iff none of the handler types can catch `SyntaxException` /
`CompileException` - both derive `MakoException(Exception)`, so the handlers must not name `Exception`,
`BaseException`, `MakoException`, the two classes themselves, nor be bare.

Emitted: the handler type names of every `except` clause of `_check` whose body raises (a bare clause is
"BaseException"); whether the handler(s) directly around `Template(...)` in `_load` re-raise (a bare `raise` as the last
statement).  `_load` without such a handler is a RegenError (never a vacuous `true`).
"""
from __future__ import annotations

import ast

from regen import group, RegenError, parse, find_class, find_func, HEADER, lean_string

REL = "mako/lookup.py"


def _names(t):
    if t is None:
        return ["BaseException"]
    if isinstance(t, ast.Tuple):
        out = []
        for e in t.elts:
            out += _names(e)
        return out
    if isinstance(t, ast.Name):
        return [t.id]
    if isinstance(t, ast.Attribute):
        return [t.attr]
    raise RegenError("%s: _check: handler type not understood: %s" % (REL, ast.dump(t)[:80]))


@group("ErrPos")
def gen(repo) -> str:
    tree = parse(repo, REL)
    cls = find_class(tree, "TemplateLookup", REL)
    chk = find_func(cls.body, "_check", REL)
    converting = []
    ntry = 0
    for n in ast.walk(chk):
        if isinstance(n, ast.Try):
            ntry += 1
            for h in n.handlers:
                raises_other = any(isinstance(x, ast.Raise) and x.exc is not None for x in ast.walk(h))
                if raises_other:
                    converting += _names(h.type)
    if ntry == 0:
        raise RegenError("%s: _check has no try statement" % REL)
    load = find_func(cls.body, "_load", REL)
    # the handlers around the `Template(...)` construction
    reraises = True
    found = False
    for n in ast.walk(load):
        if isinstance(n, ast.Try) and n.handlers:
            constructs = any(isinstance(c, ast.Call) and getattr(c.func, "id", getattr(c.func, "attr", None)) == "Template"
                             for b in n.body for c in ast.walk(b))
            inner_try = any(isinstance(c, ast.Try) and c.handlers for b in n.body for c in ast.walk(b))
            if constructs and not inner_try:
                found = True
                for h in n.handlers:
                    last = h.body[-1] if h.body else None
                    if not (isinstance(last, ast.Raise) and last.exc is None):
                        reraises = False
    if not found:
        # no `try: … Template(...) … except: …; raise` any more: the shape the flag speaks about is gone, and
        # "every handler re-raises" would be vacuous - a broken tie, to be looked at, rather than a silent `true`
        raise RegenError("%s: _load has no except clause directly around the Template(...) construction "
                         "(shape not understood: cannot tell what happens to a compile error)" % REL)
    out = [HEADER % REL, "\nnamespace MakoModel.Generated.ErrPos\n\n"]
    out.append("/-- exception classes the `except` clauses of `TemplateLookup._check` convert into\n"
               "    `TemplateLookupException` (a bare clause is listed as `BaseException`) -/\n")
    out.append("def checkConverts : List String := [%s]\n\n" % ", ".join(lean_string(x) for x in converting))
    out.append("/-- every `except` clause around the `Template(...)` construction of `TemplateLookup._load` ends with a bare `raise` -/\n")
    out.append("def loadReraises : Bool := %s\n\n" % ("true" if reraises else "false"))
    out.append("end MakoModel.Generated.ErrPos\n")
    return "".join(out)
