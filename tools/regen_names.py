"""Regen group "Names": the reserved-name tables of mako/codegen.py that the name-resolution model
(lean/MakoModel/Names/Model.lean) is parameterised by.

* `TOPLEVEL_DECLARED` – a set/frozenset literal of string constants,
* `RESERVED_NAMES`    – a set/frozenset literal, possibly combined with `.union(<name or literal>)` /
  `|` with another module-level set constant (the shape in the tree is
  `{"context", "loop"}.union(TOPLEVEL_DECLARED)`),
* the name removed from the reserved set when the loop context is disabled
  (`Template.reserved_names`: `codegen.RESERVED_NAMES.difference(["loop"])`),
* the name `check_declared` never records as undeclared (`ident != "context"`).

Nothing is imported from mako; an unreadable shape raises RegenError.
"""
from __future__ import annotations

import ast

from regen import group, RegenError, parse, module_assign, find_class, find_func, HEADER, lean_str


def _str_set(node, tree, rel, depth=0):
    """evaluate a set-valued constant expression made of set/frozenset literals of strings, names of other
    module-level constants, `.union(...)`, `.difference(...)` and `|`/`-`"""
    if depth > 8:
        raise RegenError("%s: set expression nested too deeply" % rel)
    if isinstance(node, ast.Set):
        out = set()
        for e in node.elts:
            if not (isinstance(e, ast.Constant) and isinstance(e.value, str)):
                raise RegenError("%s: non-string element in set literal: %s" % (rel, ast.dump(e)[:60]))
            out.add(e.value)
        return out
    if isinstance(node, (ast.List, ast.Tuple)):
        return _str_set(ast.Set(elts=node.elts), tree, rel, depth + 1)
    if isinstance(node, ast.Call) and isinstance(node.func, ast.Name) and node.func.id in ("set", "frozenset"):
        if not node.args:
            return set()
        if len(node.args) == 1 and not node.keywords:
            return _str_set(node.args[0], tree, rel, depth + 1)
    if isinstance(node, ast.Name):
        return _str_set(module_assign(tree, node.id, rel), tree, rel, depth + 1)
    if isinstance(node, ast.Call) and isinstance(node.func, ast.Attribute) and not node.keywords:
        base = _str_set(node.func.value, tree, rel, depth + 1)
        args = [_str_set(a, tree, rel, depth + 1) for a in node.args]
        if node.func.attr == "union":
            for a in args:
                base = base | a
            return base
        if node.func.attr == "difference":
            for a in args:
                base = base - a
            return base
    if isinstance(node, ast.BinOp) and isinstance(node.op, (ast.BitOr, ast.Sub)):
        a, b = _str_set(node.left, tree, rel, depth + 1), _str_set(node.right, tree, rel, depth + 1)
        return (a | b) if isinstance(node.op, ast.BitOr) else (a - b)
    raise RegenError("%s: cannot read set expression %s" % (rel, ast.unparse(node)[:80]))


def _names_list(names):
    return "[" + ", ".join(lean_str(n) for n in sorted(names)) + "]"


@group("Names")
def gen(repo) -> str:
    rel = "mako/codegen.py"
    tree = parse(repo, rel)
    toplevel = _str_set(module_assign(tree, "TOPLEVEL_DECLARED", rel), tree, rel)
    reserved = _str_set(module_assign(tree, "RESERVED_NAMES", rel), tree, rel)

    # Template.reserved_names: if self.enable_loop: RESERVED_NAMES else RESERVED_NAMES.difference([...])
    rel_t = "mako/template.py"
    tt = parse(repo, rel_t)
    fn = find_func(find_class(tt, "Template", rel_t).body, "reserved_names", rel_t)
    removed = None
    for n in ast.walk(fn):
        if isinstance(n, ast.Call) and isinstance(n.func, ast.Attribute) and n.func.attr == "difference" \
                and isinstance(n.func.value, ast.Attribute) and n.func.value.attr == "RESERVED_NAMES" and len(n.args) == 1:
            removed = _str_set(n.args[0], tt, rel_t)
    ifs = [n for n in fn.body if isinstance(n, ast.If)]
    ok = (len(ifs) == 1 and isinstance(ifs[0].test, ast.Attribute) and ifs[0].test.attr == "enable_loop"
          and removed is not None and len(removed) == 1)
    if not ok:
        raise RegenError("%s: Template.reserved_names is not `if self.enable_loop: RESERVED_NAMES else "
                         "RESERVED_NAMES.difference([name])`" % rel_t)
    loop_name = sorted(removed)[0]

    # _Identifiers.check_declared: `if ident != "context" and ident not in …`
    ident_cls = find_class(tree, "_Identifiers", rel)
    cd = find_func(ident_cls.body, "check_declared", rel)
    never = set()
    for n in ast.walk(cd):
        if isinstance(n, ast.Compare) and len(n.ops) == 1 and isinstance(n.ops[0], ast.NotEq) \
                and isinstance(n.left, ast.Name) and isinstance(n.comparators[0], ast.Constant) \
                and isinstance(n.comparators[0].value, str):
            never.add(n.comparators[0].value)
    if len(never) != 1:
        raise RegenError("%s: check_declared has no single `ident != <name>` exclusion (found %r)" % (rel, sorted(never)))
    ctx_name = sorted(never)[0]

    # the reserved-name test of _Identifiers.__init__: which collections are intersected with the reserved names
    init = find_func(ident_cls.body, "__init__", rel)
    checked = set()
    for n in ast.walk(init):
        if isinstance(n, ast.Call) and isinstance(n.func, ast.Attribute) and n.func.attr == "intersection" \
                and isinstance(n.func.value, ast.Attribute) and n.func.value.attr == "reserved_names":
            for a in n.args:
                for m in ast.walk(a):
                    if isinstance(m, ast.Attribute) and isinstance(m.value, ast.Name) and m.value.id == "self":
                        checked.add(m.attr)
    known = {"locally_declared", "argument_declared", "closuredefs", "topleveldefs", "declared", "undeclared", "locally_assigned"}
    if not checked or not checked <= known:
        raise RegenError("%s: _Identifiers.__init__: reserved_names.intersection(...) over unknown collections %r" % (rel, sorted(checked)))

    # Template.render_context: are the extra keyword arguments intersected with the reserved names?
    rc = find_func(find_class(tt, "Template", rel_t).body, "render_context", rel_t)
    kw_checked = False
    kw_unconditional = False
    def _is_kw_check(n):
        return (isinstance(n, ast.Call) and isinstance(n.func, ast.Attribute) and n.func.attr == "intersection"
                and isinstance(n.func.value, ast.Attribute) and n.func.value.attr == "reserved_names"
                and len(n.args) == 1 and isinstance(n.args[0], ast.Name) and rc.args.kwarg is not None
                and n.args[0].id == rc.args.kwarg.arg)
    # the check must be a statement of the function body itself, not nested under a condition on the context
    for st in rc.body:
        if isinstance(st, (ast.Assign, ast.Expr)) and any(_is_kw_check(m) for m in ast.walk(st)):
            kw_unconditional = True
        if isinstance(st, ast.If) and any(_is_kw_check(m) for m in ast.walk(st.test)):
            kw_unconditional = True
    for n in ast.walk(rc):
        if isinstance(n, ast.Call) and isinstance(n.func, ast.Attribute) and n.func.attr == "intersection" \
                and isinstance(n.func.value, ast.Attribute) and n.func.value.attr == "reserved_names" \
                and len(n.args) == 1 and isinstance(n.args[0], ast.Name) and rc.args.kwarg is not None \
                and n.args[0].id == rc.args.kwarg.arg:
            kw_checked = True

    # write_variable_declares: `for ident in sorted(to_write)`; write_render_callable: `sorted(...argument_declared)`
    gen_cls = find_class(tree, "_GenerateRenderMethod", rel)
    wvd = find_func(gen_cls.body, "write_variable_declares", rel)
    loops = [n for n in ast.walk(wvd) if isinstance(n, ast.For) and isinstance(n.target, ast.Name) and n.target.id == "ident"
             and not (isinstance(n.iter, ast.Call) and isinstance(n.iter.func, ast.Attribute))]
    loops = [n for n in loops if "to_write" in ast.unparse(n.iter)]
    if len(loops) != 1:
        raise RegenError("%s: write_variable_declares has no single `for ident in <to_write>` loop" % rel)
    it = loops[0].iter
    declares_sorted = isinstance(it, ast.Call) and isinstance(it.func, ast.Name) and it.func.id == "sorted" \
        and len(it.args) == 1 and isinstance(it.args[0], ast.Name) and it.args[0].id == "to_write" and not it.keywords
    if not declares_sorted and not (isinstance(it, ast.Name) and it.id == "to_write"):
        raise RegenError("%s: write_variable_declares iterates %s" % (rel, ast.unparse(it)))
    wrc = find_func(gen_cls.body, "write_render_callable", rel)
    ml_sorted = any(isinstance(n, ast.Call) and isinstance(n.func, ast.Name) and n.func.id == "sorted" and len(n.args) == 1
                    and isinstance(n.args[0], ast.Attribute) and n.args[0].attr == "argument_declared" for n in ast.walk(wrc))

    # visitCode: the key list of `__M_locals.update(...)` after a <% %> block:  `[repr(x) for x in <EXPR>]`
    vc = find_func(gen_cls.body, "visitCode", rel)
    comps = [n for n in ast.walk(vc) if isinstance(n, ast.ListComp) and isinstance(n.elt, ast.Call)
             and isinstance(n.elt.func, ast.Name) and n.elt.func.id == "repr"]
    if len(comps) != 1 or len(comps[0].generators) != 1 or comps[0].generators[0].ifs:
        raise RegenError("%s: visitCode has no single `[repr(x) for x in …]` key list for __M_locals.update" % rel)
    it = comps[0].generators[0].iter
    if isinstance(it, ast.Call) and isinstance(it.func, ast.Name) and it.func.id == "sorted" and len(it.args) == 1 and not it.keywords:
        it = it.args[0]
    src_it = ast.unparse(it)
    if src_it == "node.declared_identifiers()":
        ml_minus_args = False
    elif "declared_identifiers()" in src_it and "argument_declared" in src_it and ("difference" in src_it or " - " in src_it):
        ml_minus_args = True
    else:
        raise RegenError("%s: visitCode updates __M_locals with the keys `%s` (expected node.declared_identifiers())" % (rel, src_it))

    # visitCallTag: `callable_identifiers.declared.discard("caller")` - the defs of a <%call> take `caller` from the call stack
    vct = find_func(gen_cls.body, "visitCallTag", rel)
    drop = set()
    for n in ast.walk(vct):
        if isinstance(n, ast.Call) and isinstance(n.func, ast.Attribute) and n.func.attr in ("discard", "remove") \
                and ast.unparse(n.func.value) == "callable_identifiers.declared" and len(n.args) == 1 \
                and isinstance(n.args[0], ast.Constant) and isinstance(n.args[0].value, str):
            drop.add(n.args[0].value)
    if drop - {"caller"}:
        raise RegenError("%s: visitCallTag discards %r from callable_identifiers.declared" % (rel, sorted(drop)))

    # runtime.Context.__getitem__ / get: is "bound in the context" a membership test (`key in self._data`, dict.get with a
    # default) or a test on the value (`self._data.get(key)` compared with None / truthiness)?
    rel_r = "mako/runtime.py"
    tr = parse(repo, rel_r)
    ctx_cls = find_class(tr, "Context", rel_r)
    gi = find_func(ctx_cls.body, "__getitem__", rel_r)
    gi_src = ast.unparse(gi)
    body = [n for n in gi.body if not (isinstance(n, ast.Expr) and isinstance(n.value, ast.Constant))]
    if (len(body) == 1 and isinstance(body[0], ast.If) and isinstance(body[0].test, ast.Compare)
            and len(body[0].test.ops) == 1 and isinstance(body[0].test.ops[0], ast.In)
            and ast.unparse(body[0].test.comparators[0]) == "self._data"
            and ast.unparse(body[0].body[0]) == "return self._data[key]"
            and len(body[0].orelse) == 1 and ast.unparse(body[0].orelse[0]) == "return builtins.__dict__[key]"):
        getitem_membership = True
    elif "self._data.get(key)" in gi_src and ("is None" in gi_src or "if not " in gi_src or " or " in gi_src):
        getitem_membership = False
    else:
        raise RegenError("%s: Context.__getitem__ is neither the membership form nor a value test: %s" % (rel_r, gi_src[:120]))
    gt = find_func(ctx_cls.body, "get", rel_r)
    rets = [n for n in ast.walk(gt) if isinstance(n, ast.Return)]
    get_membership = len(rets) == 1 and ast.unparse(rets[0].value) == "self._data.get(key, builtins.__dict__.get(key, default))"
    if not get_membership and not ("self._data.get(key)" in ast.unparse(gt)):
        raise RegenError("%s: Context.get is not `self._data.get(key, builtins.__dict__.get(key, default))`: %s"
                         % (rel_r, ast.unparse(gt)[:120]))

    # runtime._include_file: are the keyword arguments (<%include args=…>, Namespace.include_file) intersected with the
    # included template's reserved names, as a statement of the function body itself?
    inc = find_func(tr.body, "_include_file", rel_r)
    inc_checks = False
    if inc.args.kwarg is not None:
        for st in inc.body:
            if isinstance(st, (ast.Assign, ast.Expr, ast.If)):
                tgt = st.test if isinstance(st, ast.If) else st
                for m in ast.walk(tgt):
                    if (isinstance(m, ast.Call) and isinstance(m.func, ast.Attribute) and m.func.attr == "intersection"
                            and isinstance(m.func.value, ast.Attribute) and m.func.value.attr == "reserved_names"
                            and len(m.args) == 1 and isinstance(m.args[0], ast.Name) and m.args[0].id == inc.args.kwarg.arg):
                        inc_checks = True

    # visitCallTag's DefVisitor: without a visitCallTag method of its own the default traversal descends into nested calls
    dv = [n for n in ast.walk(vct) if isinstance(n, ast.ClassDef) and n.name == "DefVisitor"]
    if len(dv) != 1:
        raise RegenError("%s: visitCallTag has no single DefVisitor class" % rel)
    dv_methods = {n.name for n in dv[0].body if isinstance(n, ast.FunctionDef)}
    if not {"visitDefTag", "visitBlockTag"} <= dv_methods:
        raise RegenError("%s: DefVisitor of visitCallTag lacks visitDefTag/visitBlockTag" % rel)
    descends = not {"visitCallTag", "visitCallNamespaceTag"} <= dv_methods

    # visitControlLine: a `% for` is rewritten by mangle_mako_loop only while the loop context is enabled
    vcl = find_func(gen_cls.body, "visitControlLine", rel)
    guards = []
    for n in ast.walk(vcl):
        if isinstance(n, ast.If) and any(isinstance(m, ast.Call) and isinstance(m.func, ast.Name) and m.func.id == "mangle_mako_loop"
                                         for st in n.body for m in ast.walk(st)):
            guards.append(n.test)
    if len(guards) != 1:
        raise RegenError("%s: visitControlLine has no single `if …: mangle_mako_loop(...)`" % rel)
    gsrc = ast.unparse(guards[0])
    if 'node.keyword == \'for\'' not in gsrc:
        raise RegenError("%s: visitControlLine rewrites under the condition `%s`" % (rel, gsrc))
    conj = [ast.unparse(v) for v in guards[0].values] if isinstance(guards[0], ast.BoolOp) and isinstance(guards[0].op, ast.And) else [gsrc]
    for_only_enabled = "self.compiler.enable_loop" in conj
    if not for_only_enabled and conj != ["node.keyword == 'for'"]:
        raise RegenError("%s: visitControlLine rewrites under the condition `%s`" % (rel, gsrc))

    # _Identifiers.visitControlLine: does a `% for` whose suite mentions `loop` count as a reader of `loop` itself
    # (so that the function it is emitted into creates its __M_loop)?
    ivcl = find_func(ident_cls.body, "visitControlLine", rel)
    # recognised only as: a LoopVariable() visitor is run inside _Identifiers.visitControlLine itself, its `.detected`
    # is consulted, and `self.undeclared.add("loop")` follows
    uses_lv = any(isinstance(n, ast.Call) and isinstance(n.func, ast.Name) and n.func.id == "LoopVariable" for n in ast.walk(ivcl))
    reads_detected = any(isinstance(n, ast.Attribute) and n.attr == "detected" for n in ast.walk(ivcl))
    adds_loop = any(isinstance(n, ast.Call) and ast.unparse(n.func) == "self.undeclared.add" and len(n.args) == 1
                    and isinstance(n.args[0], ast.Constant) and n.args[0].value == "loop" for n in ast.walk(ivcl))
    for_declares_loop = uses_lv and reads_detected and adds_loop

    out = [HEADER % "mako/codegen.py (TOPLEVEL_DECLARED, RESERVED_NAMES, _Identifiers, _GenerateRenderMethod), mako/template.py (Template.reserved_names, render_context), mako/runtime.py (Context.__getitem__, Context.get)",
           "", "namespace MakoModel.Generated.Names", "",
           "/-- `codegen.TOPLEVEL_DECLARED` (sorted) -/",
           "def toplevelDeclared : List (List Char) := " + _names_list(toplevel),
           "/-- `codegen.RESERVED_NAMES` (sorted) -/",
           "def reservedNames : List (List Char) := " + _names_list(reserved),
           "/-- the name `Template.reserved_names` removes when `enable_loop` is false -/",
           "def loopName : List Char := " + lean_str(loop_name),
           "/-- the name `_Identifiers.check_declared` never records as undeclared -/",
           "def contextName : List Char := " + lean_str(ctx_name),
           "/-- collections of `_Identifiers` intersected with the reserved names in `__init__` (sorted) -/",
           "def reservedCheckedCollections : List String := [" + ", ".join('"%s"' % c for c in sorted(checked)) + "]",
           "/-- whether `Template.render_context` intersects its `**kwargs` with the reserved names -/",
           "def renderContextChecksKwargs : Bool := " + ("true" if kw_checked else "false"),
           "/-- whether that check is a statement of the function body itself (true) or nested under a condition (false) -/",
           "def renderContextKwargsCheckUnconditional : Bool := " + ("true" if kw_unconditional else "false"),
           "/-- whether `runtime._include_file` intersects its `**kwargs` with the included template's reserved names -/",
           "def includeChecksKwargs : Bool := " + ("true" if inc_checks else "false"),
           "/-- whether `write_variable_declares` iterates `sorted(to_write)` / `__M_locals` is built from `sorted(argument_declared)` -/",
           "def declaresSorted : Bool := " + ("true" if declares_sorted else "false"),
           "def mlocalsSorted : Bool := " + ("true" if ml_sorted else "false"),
           "/-- whether `visitCode` removes the body's arguments from the identifiers it copies into `__M_locals` (false: it copies all declared identifiers of the block) -/",
           "def mlocalsUpdateMinusArgs : Bool := " + ("true" if ml_minus_args else "false"),
           "/-- whether `visitCallTag` removes `caller` from `callable_identifiers.declared` before the defs of the call are written -/",
           "def callDefsDropCaller : Bool := " + ("true" if drop else "false"),
           "/-- whether `visitControlLine` hands a `% for` line to `mangle_mako_loop` only while `compiler.enable_loop` is set -/",
           "def forRewriteOnlyWhenEnabled : Bool := " + ("true" if for_only_enabled else "false"),
           "/-- whether `_Identifiers.visitControlLine` records `loop` as undeclared for a `% for` whose suite mentions `loop` (the harness then passes `loop` among the undeclared identifiers of that leaf) -/",
           "def forLineReadsLoop : Bool := " + ("true" if for_declares_loop else "false"),
           "/-- whether the `DefVisitor` of `visitCallTag` descends into nested `<%call>` tags: true iff it has no `visitCallTag` / `visitCallNamespaceTag` method of its own (the default traversal then enters them) -/",
           "def callDefsDescendCalls : Bool := " + ("true" if descends else "false"),
           "/-- whether `Context.__getitem__` / `Context.get` decide \"bound in the context\" by key membership (true) or by a test on the value (false) -/",
           "def ctxGetItemByMembership : Bool := " + ("true" if getitem_membership else "false"),
           "def ctxGetByMembership : Bool := " + ("true" if get_membership else "false"),
           "", "end MakoModel.Generated.Names", ""]
    return "\n".join(out)
